"""Merged program model over the extracted facts (functions, classes, globals)."""
import json
import os
import pickle
import re

from . import facts
from .facts import AnalysisBroken

_NODE_KEYS = ("recv", "fnexpr", "base", "l", "r", "sub", "c", "t", "f", "idx",
              "init", "condvar", "then", "else", "body", "inc", "range",
              "rangestmt", "beginstmt", "endstmt", "loopvar", "lhs")
_LIST_KEYS = ("args", "inits", "kids", "catches")


def plain(q):
    """Strip template argument lists from a qualified name."""
    if "<" not in q:
        return q
    out, depth = [], 0
    i = 0
    while i < len(q):
        c = q[i]
        if c == "<" and not q.startswith("operator<", max(0, i - 8), i + 1):
            depth += 1
        elif c == ">" and depth > 0 and q[i - 1:i + 1] != "->":
            depth -= 1
        elif depth == 0:
            out.append(c)
        i += 1
    return "".join(out)


_KNOWN_CONSTANTS = None


def _new_constant(fn, n):
    """Is the folded constant behind ref node n absent from the reference tree (analysis/known_constants.json)?  Without the table nothing is new."""
    global _KNOWN_CONSTANTS
    if _KNOWN_CONSTANTS is None:
        try:
            with open(os.path.join(os.path.dirname(os.path.abspath(__file__)), "known_constants.json")) as fh:
                _KNOWN_CONSTANTS = set(json.load(fh))
        except (OSError, ValueError):
            _KNOWN_CONSTANTS = False
    if _KNOWN_CONSTANTS is False:
        return False
    key = ("%s|%s" % (fn.pq, n["name"])) if n.get("dk") == "local" else (n.get("qname") or n["name"])
    return key not in _KNOWN_CONSTANTS and not key.startswith("std::")


class Fn:
    """One function definition with its node table and CFG."""

    def __init__(self, d):
        self.d = d
        self.usr = d["usr"]
        self.qname = d["qname"]
        self.pq = plain(d["qname"])
        self.name = d["name"]
        self.file = d["file"]
        self.line = d["line"]
        self.kind = d["kind"]
        self.cls = d.get("cls", "")
        self.nodes = d["nodes"]
        self.cfg = d["cfg"] or []
        self.params = d["params"]
        self.body = d.get("body", -1)
        self._parent = None
        self._pos = None
        self._dup = None
        self.blocks = {b["id"]: b for b in self.cfg}
        self.entry = next((b["id"] for b in self.cfg if b.get("entry")), None)
        self.exit = next((b["id"] for b in self.cfg if b.get("exit")), None)

    def __repr__(self):
        return "<Fn %s %s:%d>" % (self.qname, self.file, self.line)

    # ---- node access
    def N(self, i):
        return self.nodes[i]

    def kids(self, i):
        n = self.nodes[i]
        out = []
        k = n["k"]
        for key in _NODE_KEYS:
            v = n.get(key)
            if isinstance(v, int) and v >= 0:
                out.append(v)
        if k == "return" and isinstance(n.get("val"), int) and n["val"] >= 0:
            out.append(n["val"])
        for key in _LIST_KEYS:
            v = n.get(key)
            if isinstance(v, list):
                out += [x for x in v if isinstance(x, int) and x >= 0]
        # de-duplicate preserving order (decl: init appears in kids too)
        seen, res = set(), []
        for x in out:
            if x not in seen:
                seen.add(x)
                res.append(x)
        return res

    @property
    def parent(self):
        if self._parent is None:
            p = {}
            for i in range(len(self.nodes)):
                for c in self.kids(i):
                    p.setdefault(c, i)
            self._parent = p
        return self._parent

    def walk(self, i):
        stack = [i]
        seen = set()
        while stack:
            x = stack.pop()
            if x in seen or x < 0:
                continue
            seen.add(x)
            yield x
            stack.extend(reversed(self.kids(x)))

    def ancestors(self, i):
        p = self.parent
        while i in p:
            i = p[i]
            yield i

    def all(self, k=None):
        for i, n in enumerate(self.nodes):
            if k is None or n["k"] == k:
                yield i

    def loc(self, i=None):
        if i is None:
            return "%s:%d" % (self.file, self.line)
        return "%s:%d" % (self.file, self.nodes[i]["line"])

    @property
    def pos(self):
        """node id -> (block id, element index) of its CFG element."""
        if self._pos is None:
            p = {}
            for b in self.cfg:
                for idx, e in enumerate(b["elems"]):
                    if "dtor" in e:
                        continue
                    n = e.get("n", -1)
                    if n >= 0 and n not in p:
                        p[n] = (b["id"], idx)
            self._pos = p
        return self._pos

    def pos_of(self, i):
        """Position of node i, or of its nearest ancestor that is a CFG element."""
        p = self.pos
        if i in p:
            return p[i]
        for a in self.ancestors(i):
            if a in p:
                return p[a]
        return None

    # ---- expression helpers
    def strip(self, i):
        """Skip wrappers that do not change identity of the value."""
        while i is not None and i >= 0:
            n = self.nodes[i]
            k = n["k"]
            if k == "cast":
                i = n["sub"]
            elif k == "construct" and len(n.get("args", [])) == 1 and (
                    n.get("copymove") or n.get("elidable")
                    or n.get("type", "").startswith(("std::optional<", "const std::optional<"))):
                i = n["args"][0]     # copies and optional-wrapping keep the value's identity
            elif k == "call" and n.get("cname") in ("move", "forward", "ref", "cref", "as_const") \
                    and n.get("callee", "").startswith("std::") and len(n.get("args", [])) == 1:
                i = n["args"][0]
            elif k == "call" and "recv" in n and n.get("ccls") == "std::reference_wrapper" and \
                    n.get("cname", "").startswith("operator "):
                i = n["recv"]       # implicit reference_wrapper<T> -> T& conversion
            elif k == "other" and len(n.get("kids", [])) == 1 and n.get("cls") in (
                    "CXXFunctionalCastExpr", "CXXStdInitializerListExpr"):
                i = n["kids"][0]
            else:
                break
        return i

    def text(self, i, depth=0, ref_cb=None, node_cb=None):
        """Canonical rendering of an expression (for keys and diagnostics).
        ref_cb(node) may return a replacement string for a reference."""
        if i is None or i < 0:
            return "?"
        if depth > (40 if ref_cb else 12):
            return "..."
        i = self.strip(i)
        n = self.nodes[i]
        k = n["k"]
        if node_cb is not None:
            r = node_cb(i, n)
            if r is not None:
                return r
        T = lambda x: self.text(x, depth + 1, ref_cb, node_cb)
        if k == "ref":
            if ref_cb is not None:
                r = ref_cb(n)
                if r is not None:
                    return r
            if "cval" in n and n["dk"] in ("global", "static_local", "local") and _new_constant(self, n):
                # a named integral constant that the reference tree does not have (`constexpr char kSep = '/'`, `constexpr int kMask =
                # 0xFFF`): rendered by its value, like the literal it stands for
                return str(n["cval"])
            if n["dk"] in ("global", "enumconst", "func", "static_local"):
                return n.get("qname", n["name"])
            if n["name"] in self.dup_names:
                # two distinct locals share this name (e.g. range-for's __begin2)
                return "%s@%s" % (n["name"], n.get("decl", "").split("@")[-1].split(":")[0])
            return n["name"]
        if k == "this":
            return "this"
        if k == "member":
            b = T(n["base"])
            if b.endswith("->") and n.get("arrow"):
                return b + n["name"]        # it->member through an overloaded operator->: one arrow, like the source
            return "%s%s%s" % (b, "->" if n.get("arrow") else ".", n["name"])
        if k == "lit":
            return '"%s"' % n["v"] if n["lk"] == "str" else str(n["v"])
        if k == "bin":
            return "(%s %s %s)" % (T(n["l"]), n["op"], T(n["r"]))
        if k == "un":
            if n.get("post"):
                return "%s%s" % (T(n["sub"]), n["op"])
            return "%s%s" % (n["op"], T(n["sub"]))
        if k == "cond":
            return "(%s ? %s : %s)" % (T(n["c"]), T(n["t"]), T(n["f"]))
        if k == "call":
            args = ", ".join(T(a) for a in n.get("args", []))
            if "op" in n:
                op = n["op"]
                if "recv" in n:
                    r = T(n["recv"])
                    if op == "()":
                        return "%s(%s)" % (r, args)
                    if op == "[]":
                        return "%s[%s]" % (r, args)
                    if op in ("*", "->", "!", "++", "--", "-", "~", "&") and not n.get("args"):
                        return "%s%s" % (op, r) if op != "->" else "%s->" % r
                    return "(%s %s %s)" % (r, op, args)
                a = n.get("args", [])
                if len(a) == 2:
                    return "(%s %s %s)" % (T(a[0]), op, T(a[1]))
                if len(a) == 1:
                    return "%s%s" % (op, T(a[0]))
            if "recv" in n:
                rn = self.nodes[self.strip(n["recv"])]
                r = T(n["recv"])
                # x->f() through operator-> renders as "x->" already
                sep = "" if r.endswith("->") else ("->" if rn.get("tw") == "p" or rn["k"] == "this" else ".")
                return "%s%s%s(%s)" % (r, sep, n.get("cname", "?"), args)
            if "callee" in n:
                return "%s(%s)" % (plain(n["callee"]), args)
            return "%s(%s)" % (T(n.get("fnexpr", -1)), args)
        if k == "construct":
            return "%s(%s)" % (plain(n.get("type", "?")), ", ".join(T(a) for a in n.get("args", [])))
        if k == "subscript":
            return "%s[%s]" % (T(n["base"]), T(n["idx"]))
        if k == "lambda":
            return "lambda@%d" % n["line"]
        if k == "initlist":
            return "{%s}" % ", ".join(T(a) for a in n.get("kids", []))
        if k == "sizeof":
            return "sizeof(%s)" % (n.get("arg") or ", ".join(T(a) for a in n.get("kids", [])))
        if k == "return":
            return "return %s" % (T(n["val"]) if "val" in n else "")
        if k == "decl":
            return "decl " + ",".join(v["name"] for v in n.get("vars", []))
        if k == "throw":
            return "throw %s" % T(n.get("sub", -1))
        if k == "other":
            return "%s(%s)" % (n.get("cls", "?"), ", ".join(T(a) for a in n.get("kids", [])))
        return k

    @property
    def dup_names(self):
        if getattr(self, "_dup", None) is None:
            seen = {}
            for n in self.nodes:
                if n["k"] == "ref" and n.get("decl"):
                    seen.setdefault(n["name"], set()).add(n["decl"])
                elif n["k"] == "decl":
                    for v in n.get("vars", []):
                        seen.setdefault(v["name"], set()).add(v["decl"])
            self._dup = {k for k, v in seen.items() if len(v) > 1}
        return self._dup

    def callee(self, i):
        n = self.nodes[i]
        return plain(n.get("callee", "")) if n["k"] in ("call", "construct") else ""

    def calls(self, *names, within=None):
        """Ids of call/construct nodes whose plain callee qname equals or ends with ::name."""
        rng = self.walk(within) if within is not None else range(len(self.nodes))
        out = []
        for i in rng:
            n = self.nodes[i]
            if n["k"] not in ("call", "construct"):
                continue
            c = plain(n.get("callee", ""))
            if not names:
                out.append(i)
                continue
            for nm in names:
                if c == nm or c.endswith("::" + nm):
                    out.append(i)
                    break
        return out

    def root_ref(self, i):
        """Follow base/recv/deref chains to the root object node id."""
        seen = 0
        while i is not None and i >= 0 and seen < 50:
            seen += 1
            i = self.strip(i)
            n = self.nodes[i]
            k = n["k"]
            if k == "member":
                i = n["base"]
            elif k == "call" and "recv" in n and (
                    n.get("op") in ("*", "->", "[]") or n.get("cname") in (
                        "get", "value", "at", "front", "back", "begin", "end", "c_str")):
                i = n["recv"]
            elif k == "un" and n["op"] in ("*", "&"):
                i = n["sub"]
            elif k == "subscript":
                i = n["base"]
            else:
                return i
        return i

    def var_token(self, i):
        """Identity token of an lvalue expression: L:<decl>, F:<field qname>, G:<qname>."""
        i = self.strip(i)
        n = self.nodes[i]
        if n["k"] == "ref":
            if n["dk"] in ("local", "param", "binding"):
                return "L:" + n.get("decl", n["name"])
            if n["dk"] in ("global", "static_local"):
                return "G:" + n.get("qname", n["name"])
            return None
        if n["k"] == "member" and n.get("dk") == "field":
            return "F:" + n["qname"]
        return None

    def enclosing(self, i, *kinds):
        for a in self.ancestors(i):
            if self.nodes[a]["k"] in kinds:
                return a
        return None

    def vardecl(self, decl):
        """(decl node id, var record) declaring local `decl`."""
        for i in self.all("decl"):
            for v in self.nodes[i].get("vars", []):
                if v["decl"] == decl:
                    return i, v
        return None, None


class Program:
    def __init__(self, units, repo):
        self.repo = repo
        self.fns = {}           # usr -> Fn
        self.classes = {}       # qname -> record
        self.enums = {}
        self.globals = {}       # qname -> record
        self.unit_of = {}
        self.n_units = len(units)
        for unit, d in units:
            for f in d["functions"]:
                if f["usr"] not in self.fns:
                    self.fns[f["usr"]] = Fn(f)
                    self.unit_of[f["usr"]] = unit
            for c in d["classes"]:
                if c.get("enum"):
                    self.enums.setdefault(c["qname"], c)
                else:
                    self.classes.setdefault(c["qname"], c)
            for g in d["globals"]:
                self.globals.setdefault(g["qname"], g)
        self.by_q = {}
        self.by_pattern = {}
        for f in self.fns.values():
            self.by_q.setdefault(f.pq, []).append(f)
            if f.d.get("pattern"):
                self.by_pattern.setdefault(f.d["pattern"], []).append(f.usr)
        self._overriders = None
        self._derived = None
        self.params_canonicalised = self._canonical_params()
        from .inline import fold_new_helpers
        self.folded_helpers = fold_new_helpers(self)
        if self.folded_helpers:
            self.by_q, self.by_pattern = {}, {}
            for f in self.fns.values():
                self.by_q.setdefault(f.pq, []).append(f)
                if f.d.get("pattern"):
                    self.by_pattern.setdefault(f.d["pattern"], []).append(f.usr)

    # ---- parameter names
    PARAM_TABLE = os.path.join(os.path.dirname(os.path.abspath(__file__)), "param_names.json")

    @staticmethod
    def param_key(f):
        return "%s(%s)" % (plain(f.d["qname"]), ",".join(p.get("type", "?") for p in f.d["params"]))

    def _canonical_params(self):
        """Parameters are identified by position and type, not by spelling: a function whose parameter list has the same types as
        on the reference tree (param_names.json, written by tools/gen_param_names.py) has its parameters renamed to the reference
        names in the node tables, so a renamed parameter changes nothing for any rule.  Skipped for a function in which the
        reference name is already used by another declaration.  Returns the renamings applied, for the evidence."""
        try:
            import json
            with open(self.PARAM_TABLE) as fh:
                table = json.load(fh)
        except (OSError, ValueError):
            return []
        done = []
        kids = {}
        for f in self.fns.values():
            if f.d.get("parentfn"):
                kids.setdefault(f.d["parentfn"], []).append(f)
        # fallback when only the spelling of a parameter TYPE changed (an alias): a function name that has exactly one definition
        # with that many parameters, on both trees, is matched by position
        by_name = {}
        for k_, v_ in table.items():
            by_name.setdefault((k_.split("(", 1)[0], len(v_)), []).append(v_)
        cur = {}
        for f in self.fns.values():
            if not f.d.get("parentfn") and f.kind != "lambda":
                cur.setdefault((plain(f.d["qname"]), len(f.d["params"])), set()).add(self.param_key(f))
        for f in list(self.fns.values()):
            ref = table.get(self.param_key(f))
            if not ref and not f.d.get("parentfn") and f.kind != "lambda":
                nk = (plain(f.d["qname"]), len(f.d["params"]))
                if len(by_name.get(nk, [])) == 1 and len(cur.get(nk, ())) == 1:
                    ref = by_name[nk][0]
            if not ref or len(ref) != len(f.params) or f.d.get("parentfn"):
                continue
            ren = {p["decl"]: (p["name"], r) for p, r in zip(f.params, ref) if p.get("name") and r and p["name"] != r and p.get("decl")}
            if not ren:
                continue
            scope = [f]
            stack = list(kids.get(f.usr, []))
            while stack:
                l = stack.pop()
                scope.append(l)
                stack.extend(kids.get(l.usr, []))
            used = set()
            for g in scope:
                for n in g.nodes:
                    if n["k"] == "decl":
                        used |= {v["name"] for v in n.get("vars", [])}
                used |= {p["name"] for p in g.params if p.get("decl") not in ren}
            if any(new in used for _, new in ren.values()):
                continue
            for g in scope:
                for n in g.nodes:
                    if n["k"] == "ref" and n.get("decl") in ren:
                        n["name"] = ren[n["decl"]][1]
                for p_ in g.params:
                    if p_.get("decl") in ren:
                        p_["name"] = ren[p_["decl"]][1]
            done.append("%s: %s" % (f.pq, ", ".join("%s -> %s" % v for v in ren.values())))
        return done

    # ---- lookup
    def fn(self, qname, must=True, pick=None):
        """Functions whose plain qualified name equals qname (or ends with ::qname)."""
        res = list(self.by_q.get(qname, []))
        if not res:
            for q, fs in self.by_q.items():
                if q.endswith("::" + qname):
                    res += fs
        if pick:
            res = [f for f in res if pick(f)]
        if must and not res:
            raise AnalysisBroken("anchor function not found: " + qname)
        return res

    def fn1(self, qname, pick=None):
        res = self.fn(qname, pick=pick)
        if len(res) != 1:
            raise AnalysisBroken("anchor %s is ambiguous (%d definitions)" % (qname, len(res)))
        return res[0]

    def resolve(self, usr):
        """Definitions standing for a callee usr (itself, or instantiations of a pattern)."""
        if usr in self.fns:
            return [usr]
        return list(self.by_pattern.get(usr, ()))

    def closure_fn(self, lusr):
        """The function record of a closure given the usr its lambda expression carries.  A generic lambda (`[](const auto& x)`) is a
        template: the expression names the pattern, the body that was analysed is its single instantiation."""
        if not lusr:
            return None
        if lusr in self.fns:
            return self.fns[lusr]
        inst = [u for u in self.by_pattern.get(lusr, ()) if u in self.fns]
        if len(inst) == 1:
            return self.fns[inst[0]]
        # instantiations are keyed by their own pattern usr; fall back to position: same parent, same source position suffix
        m = re.search(r"#L(\d+:\d+)$", lusr)
        if m:
            c = [f for f in self.fns.values() if f.kind == "lambda" and f.usr.endswith("#L" + m.group(1))]
            if len(c) == 1:
                return c[0]
        return None

    def lambdas_in(self, fn):
        return [f for f in self.fns.values() if f.d.get("parentfn") == fn.usr]

    @property
    def overriders(self):
        """usr of a virtual method -> set of usrs overriding it (transitively)."""
        if self._overriders is None:
            direct = {}
            for c in self.classes.values():
                for m in c.get("methods", []):
                    for o in m.get("overrides", []):
                        direct.setdefault(o, set()).add(m["usr"])
            for f in self.fns.values():
                for o in f.d.get("overrides", []):
                    direct.setdefault(o, set()).add(f.usr)
            res = {}
            def closure(u, acc):
                for v in direct.get(u, ()):
                    if v not in acc:
                        acc.add(v)
                        closure(v, acc)
            for u in list(direct):
                acc = set()
                closure(u, acc)
                res[u] = acc
            self._overriders = res
        return self._overriders

    def derived_of(self, cls):
        if self._derived is None:
            d = {}
            for c in self.classes.values():
                for b in c.get("bases", []):
                    d.setdefault(plain(b), set()).add(c["qname"])
            self._derived = d
        out, stack = set(), [plain(cls)]
        while stack:
            x = stack.pop()
            for y in self._derived.get(x, ()):
                if y not in out:
                    out.add(y)
                    stack.append(plain(y))
        return out


def load(repo="/repo", use_cache=True):
    """Extract (cached) and merge; returns (Program, extraction stats)."""
    fp = facts.tree_fingerprint(repo)
    with open(os.path.abspath(__file__), "rb") as _f:
        import hashlib
        fp = hashlib.sha256((fp + hashlib.sha256(_f.read()).hexdigest()).encode()).hexdigest()
    for extra in (Program.PARAM_TABLE, os.path.join(os.path.dirname(os.path.abspath(__file__)), "known_functions.json"),
                  os.path.join(os.path.dirname(os.path.abspath(__file__)), "inline.py")):
        try:
            with open(extra, "rb") as _f:
                fp = hashlib.sha256((fp + hashlib.sha256(_f.read()).hexdigest()).encode()).hexdigest()
        except OSError:
            pass
    pk = os.path.join(facts.CACHE, "merged", fp + ".pickle")
    if use_cache and os.path.exists(pk):
        try:
            with open(pk, "rb") as f:
                prog, st = pickle.load(f)
            prog.repo = repo
            st = dict(st)
            st["merged_cache"] = True
            return prog, st
        except Exception:
            pass
    units, st = facts.extract_all(repo)
    prog = Program(units, repo)
    st["functions"] = len(prog.fns)
    st["classes"] = len(prog.classes)
    st["nodes"] = sum(len(f.nodes) for f in prog.fns.values())
    st["blocks"] = sum(len(f.cfg) for f in prog.fns.values())
    st["merged_cache"] = False
    if os.environ.get("VERIF_NO_MERGED_CACHE"):
        return prog, st
    os.makedirs(os.path.dirname(pk), exist_ok=True)
    tmp = pk + ".tmp.%d" % os.getpid()
    try:
        with open(tmp, "wb") as f:
            pickle.dump((prog, st), f, protocol=pickle.HIGHEST_PROTOCOL)
        os.replace(tmp, pk)
        # keep the merged cache small
        ents = sorted((os.path.getmtime(os.path.join(os.path.dirname(pk), e)), e)
                      for e in os.listdir(os.path.dirname(pk)))
        for _, e in ents[:-6]:
            try:
                os.unlink(os.path.join(os.path.dirname(pk), e))
            except OSError:
                pass
    except OSError:
        pass
    st["merged_cache"] = False
    return prog, st
