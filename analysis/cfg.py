"""E-PATH: forward dataflow over the clang CFG.

State per program point = a set of *partitions*, one per valuation of local
flag variables with known constant values (flag sensitivity); each partition
carries
  must  - tokens set on every path (intersection at joins)
  may   - tokens set on some path (union at joins)
  conds - condition facts (key, polarity) that hold on every path and whose
          operands have not been written since (killed by writes)
Tokens are set/cleared by rule-supplied events attached to CFG elements.
"""
import re
from .callgraph import node_writes
from .program import plain

BRANCH_TERMS = ("IfStmt", "WhileStmt", "ForStmt", "DoStmt", "CXXForRangeStmt",
                "BinaryOperator", "ConditionalOperator", "BinaryConditionalOperator")
MAX_PARTS = 48
_FLIP = {"<": ">", ">": "<", "<=": ">=", ">=": "<=", "==": "==", "!=": "!="}


class St:
    __slots__ = ("must", "may", "conds")

    def __init__(self, must=frozenset(), may=frozenset(), conds=frozenset()):
        self.must, self.may, self.conds = must, may, conds

    def merge(self, o):
        return St(self.must & o.must, self.may | o.may, self.conds & o.conds)

    def same(self, o):
        return self.must == o.must and self.may == o.may and self.conds == o.conds


def _merge_states(a, b):
    """a, b: dict valuation -> St ; returns merged dict (new) and changed flag wrt a."""
    if a is None:
        return dict(b), True
    out = dict(a)
    changed = False
    for v, s in b.items():
        if v in out:
            m = out[v].merge(s)
            if not m.same(out[v]):
                out[v] = m
                changed = True
        else:
            out[v] = s
            changed = True
    if len(out) > MAX_PARTS:
        # collapse: forget the flags
        it = iter(out.values())
        m = next(it)
        for s in it:
            m = m.merge(s)
        out = {frozenset(): m}
        changed = True
    return out, changed


class CondNorm:
    """Decomposition and canonical keys of branch conditions of one function."""

    def __init__(self, fn, prog=None):
        self.fn = fn
        self.prog = prog
        self.key_node = {}
        self.key_vars = {}
        self._single_init = None

    def single_init(self):
        """local decl -> init node, for locals initialised once and never reassigned."""
        if self._single_init is None:
            f = self.fn
            inits, written = {}, {}
            for i in f.all("decl"):
                for v in f.nodes[i].get("vars", []):
                    if "init" in v and not v.get("isref"):
                        inits[v["decl"]] = v["init"]
            for i in range(len(f.nodes)):
                if f.nodes[i]["k"] == "decl":
                    continue
                for t in node_writes(f, i):
                    if t.startswith("L:"):
                        written[t[2:]] = written.get(t[2:], 0) + 1
            self._single_init = {d: n for d, n in inits.items() if d not in written}
        return self._single_init

    _PURE = {"end", "cend", "begin", "cbegin", "size", "length", "empty", "has_value", "get", "value", "at", "count", "contains",
             "find", "c_str", "data", "front", "back", "first", "second"}

    def hoisted(self):
        """local decl -> init node, for locals that merely name a pure expression over state this function never writes
        (`const size_t n = v.size();`): a condition over such a local is the same condition over its initialiser."""
        if getattr(self, "_hoisted", None) is None:
            f = self.fn
            written = set()
            for i in range(len(f.nodes)):
                if f.nodes[i]["k"] != "decl":
                    written |= set(node_writes(f, i))
            out = {}
            cands = dict(self.single_init())
            # a reference bound to such an expression names it just the same
            for i in f.all("decl"):
                for v in f.nodes[i].get("vars", []):
                    if "init" in v and v.get("isref") and "const" in v.get("type", ""):
                        cands.setdefault(v["decl"], v["init"])
            loopvars = set()
            for i in f.all("rangefor"):
                lv = f.nodes[i].get("loopvar", -1)
                if lv is not None and lv >= 0:
                    for v in f.nodes[lv].get("vars", []):
                        loopvars.add(v["decl"])
                        loopvars |= set(v.get("bindings", []))
            for d, init in cands.items():
                if init is None or init < 0:
                    continue
                # the element variable of a range-for is 'the current element', and compiler-generated names stay what they are
                if d in loopvars or d.startswith("__"):
                    continue
                ok = True
                for x in f.walk(init):
                    n = f.nodes[x]
                    if n["k"] in ("lambda", "construct", "new", "throw"):
                        ok = False
                    elif n["k"] == "call" and not (n.get("cname") in self._PURE or (n.get("op") and n.get("op") not in ("()", "=", "+=", "-=", "++", "--", "<<", ">>"))
                                                   or self._plain_getter(n) or self._pure_classifier(n)):
                        ok = False
                    elif n["k"] in ("bin", "un") and n.get("op") in ("=", "+=", "-=", "*=", "/=", "++", "--"):
                        ok = False
                    t = f.var_token(x)
                    if t and t.startswith("F:"):
                        # a field of THIS object needs a const member function (nothing in it can write the field); a field of a local
                        # or parameter object is covered by that variable's own token
                        rr = f.root_ref(x)
                        if rr is not None and rr >= 0 and f.nodes[rr]["k"] == "ref" and f.nodes[rr].get("dk") in ("local", "param", "binding"):
                            t = None
                    if t and t in written:
                        # written somewhere: still fine when every write precedes the initialiser (the local then names the value
                        # as it is from there on)
                        last_ = max(f.walk(init))
                        if any(t in node_writes(f, j) for j in range(last_ + 1, len(f.nodes)) if f.nodes[j]["k"] != "decl"):
                            ok = False
                    elif t and t.startswith("F:") and not f.d.get("const"):
                        # a field of this object in a non-const member function: no later call of a non-const member on this object
                        last_ = max(f.walk(init))
                        for j in range(last_ + 1, len(f.nodes)):
                            m_ = f.nodes[j]
                            if m_["k"] == "call" and m_.get("member") and not m_.get("cconst") and not m_.get("cstatic") and \
                                    ("recv" not in m_ or f.nodes[f.strip(m_["recv"])]["k"] == "this") and "op" not in m_:
                                ok = False
                                break
                    if not ok:
                        break
                top = f.nodes[f.strip(init)]
                if ok and top["k"] not in ("lit",):
                    out[d] = init
            self._hoisted = out
        return self._hoisted

    def _plain_getter(self, n):
        """call of a const member function of this program whose body is `return <field>;`"""
        P = self.prog
        if P is None or not n.get("cusr"):
            return False
        hs = [P.fns[u] for u in P.resolve(n["cusr"]) if u in P.fns]
        if len(hs) != 1 or not hs[0].d.get("const"):
            return False
        h = hs[0]
        rets = [m for m in h.nodes if m["k"] == "return"]
        if len(rets) != 1 or "val" not in rets[0] or any(m["k"] == "call" for m in h.nodes):
            return False
        return h.nodes[h.strip(rets[0]["val"])]["k"] == "member"

    def _pure_classifier(self, n, depth=0):
        """call of a free / static function of this program that only computes from its (const) arguments: no assignment to anything but its
        own locals, no member writes, and every call in it is itself pure (std accessors, operators, other such functions)"""
        P = self.prog
        if P is None or not n.get("cusr") or depth > 2 or "recv" in n:
            return False
        hs = [P.fns[u] for u in P.resolve(n["cusr"]) if u in P.fns]
        if len(hs) != 1 or hs[0].kind not in ("function", "method") or not hs[0].file.startswith("oomd/") or not hs[0].cfg:
            return False
        if hs[0].kind == "method" and any(m_["k"] == "this" or (m_["k"] == "member" and m_.get("implicit_this")) for m_ in hs[0].nodes):
            return False
        h = hs[0]
        cache = P.__dict__.setdefault("_pure_classifiers", {})
        if h.usr in cache:
            return cache[h.usr]
        cache[h.usr] = False
        if any(("&" in (p_.get("type") or "") or "*" in (p_.get("type") or "")) and "const" not in (p_.get("type") or "") for p_ in h.params):
            return False
        for i, m in enumerate(h.nodes):
            if m["k"] in ("lambda", "new", "throw"):
                return False
            if m["k"] in ("bin", "un") and m.get("op") in ("=", "+=", "-=", "*=", "/=", "|=", "&=", "++", "--"):
                tgt = h.nodes[h.strip(m.get("l", m.get("sub", -1)))] if m.get("l", m.get("sub", -1)) is not None and m.get("l", m.get("sub", -1)) >= 0 else None
                if tgt is None or tgt.get("k") != "ref" or tgt.get("dk") != "local":
                    return False
            if m["k"] == "ref" and m.get("dk") in ("global", "static_local") and "cval" not in m and not (m.get("type") or "").startswith("const"):
                return False
            if m["k"] == "call":
                if m.get("cname") in self._PURE or (m.get("op") and m.get("op") not in ("()", "=", "+=", "-=", "++", "--", "<<", ">>")):
                    continue
                if (m.get("callee") or "").startswith("std::") and m.get("cname") in ("min", "max", "move", "forward", "abs", "tie", "get", "make_pair"):
                    continue
                if not self._pure_classifier(m, depth + 1):
                    return False
        cache[h.usr] = True
        return True

    def key_hoisted(self, i):
        """key of condition i with hoisted locals replaced by their initialisers, or None when there is nothing to replace."""
        f = self.fn
        h = self.hoisted()
        if not h:
            return None
        used = [f.nodes[x].get("decl") for x in f.walk(i) if f.nodes[x]["k"] == "ref" and f.nodes[x].get("decl") in h]
        if not used:
            return None
        depth = [0]

        def cb(n):
            d = n.get("decl")
            if d in h and depth[0] < 4:
                depth[0] += 1
                try:
                    return f.text(h[d], 0, cb)
                finally:
                    depth[0] -= 1
            return None
        k, flip = self.key(i, cb=cb)
        vs = set(self.key_vars.get(k, ()))
        for d in used:
            vs |= self.vars_of(h[d])
        self.key_vars[k] = frozenset(vs)
        return k, flip

    def vars_of(self, i):
        f = self.fn
        out = set()
        for x in f.walk(i):
            t = f.var_token(x)
            if t:
                out.add(t)
        return frozenset(out)

    def key(self, i, cb=None):
        """Canonical (key, flip) of an atomic condition; flip says polarity is inverted."""
        f = self.fn
        if cb is not None:
            return self._key(i, lambda x: f.text(x, 0, cb))
        return self._key(i, f.text)

    def _key(self, i, T):
        f = self.fn
        i = f.strip(i)
        n = f.nodes[i]
        flip = False
        op = None
        a = b = None
        if n["k"] == "bin" and n["op"] in _FLIP:
            op, a, b = n["op"], n["l"], n["r"]
        elif n["k"] == "call" and n.get("op") in _FLIP:
            if "recv" in n and len(n.get("args", [])) == 1:
                op, a, b = n["op"], n["recv"], n["args"][0]
            elif len(n.get("args", [])) == 2:
                op, a, b = n["op"], n["args"][0], n["args"][1]
        if op:
            ta, tb = T(a), T(b)
            if op == ">=":
                op, flip = "<", True
            elif op == "<=":
                op, flip = ">", True
            elif op == "!=":
                op, flip = "==", True
            if op == ">":
                op, ta, tb = "<", tb, ta
            if op == "==" and tb < ta:
                ta, tb = tb, ta
            k = "(%s %s %s)" % (ta, op, tb)
        else:
            k = T(i)
        if k not in self.key_node:
            self.key_node[k] = i
            self.key_vars[k] = self.vars_of(i)
        return k, flip

    def decompose(self, i, pol, depth=0):
        """[(key, polarity)] facts implied by condition node i having truth value pol."""
        f = self.fn
        if i is None or i < 0 or depth > 10:
            return []
        i = f.strip(i)
        n = f.nodes[i]
        k = n["k"]
        if k == "rewritten" and n.get("kids"):
            return self.decompose(n["kids"][0], pol, depth + 1)
        if k == "un" and n["op"] == "!":
            return self.decompose(n["sub"], not pol, depth + 1)
        if k == "call" and n.get("op") == "!" and "recv" in n:
            return self.decompose(n["recv"], not pol, depth + 1)
        if k == "bin" and n["op"] == "&&":
            if pol:
                return self.decompose(n["l"], True, depth + 1) + self.decompose(n["r"], True, depth + 1)
            return [self._fact(i, pol)]
        if k == "bin" and n["op"] == "||":
            if not pol:
                return self.decompose(n["l"], False, depth + 1) + self.decompose(n["r"], False, depth + 1)
            return [self._fact(i, pol)]
        if k == "call" and "recv" in n and n.get("cname") in ("operator bool", "has_value"):
            return self.decompose(n["recv"], pol, depth + 1)
        # x == nullopt / nullptr, x != nullopt
        opinfo = None
        if k == "bin" and n["op"] in ("==", "!="):
            opinfo = (n["op"], n["l"], n["r"])
        elif k == "call" and n.get("op") in ("==", "!="):
            if "recv" in n and len(n.get("args", [])) == 1:
                opinfo = (n["op"], n["recv"], n["args"][0])
            elif len(n.get("args", [])) == 2:
                opinfo = (n["op"], n["args"][0], n["args"][1])
        if opinfo:
            op, a, b = opinfo
            for x, y in ((a, b), (b, a)):
                ty = f.text(y)
                if ty in ("std::nullopt", "nullptr", "std::nullopt_t()"):
                    return self.decompose(x, pol if op == "!=" else not pol, depth + 1)
                if ty in ("true", "false") and f.nodes[f.strip(y)]["k"] == "lit":
                    same = (op == "==") == (ty == "true")      # x==true / x!=false  <=> x
                    return [self._fact(i, pol)] + self.decompose(x, pol if same else not pol, depth + 1)
        out = [self._fact(i, pol)]
        if k == "ref" and n["dk"] == "local":
            init = self.single_init().get(n.get("decl"))
            if init is not None and self._stale_after(init, i):
                init = None       # what the initialiser read has been written since: the local no longer states a fact about the present
            if init is not None and f.nodes[f.strip(init)].get("tw") in ("b", None) or (
                    init is not None and n.get("tw") == "b"):
                out += self.decompose(init, pol, depth + 1)
        return out

    def _stale_after(self, init, use=None):
        """Can a variable read by initialiser `init` have been written between the initialisation and the use?  Writes that lie, in
        source order, between the two count; so do writes anywhere inside a loop that contains the use but not the initialiser (they
        run before the next evaluation of the use)."""
        f = self.fn
        cache = self.__dict__.setdefault("_stale", {})
        key = (init, use)
        if key not in cache:
            vs = self.vars_of(init)
            stale = False
            if vs:
                last = max(f.walk(init))
                wr = cache.get(("w", init))
                if wr is None:
                    wr = [j for j in range(last + 1, len(f.nodes)) if f.nodes[j]["k"] != "decl" and set(node_writes(f, j)) & vs]
                    cache[("w", init)] = wr
                if use is None:
                    stale = bool(wr)
                elif wr:
                    if any(j < use for j in wr):
                        stale = True
                    else:
                        LOOPS = ("for", "while", "do", "rangefor")
                        outer = [a for a in f.ancestors(use) if f.nodes[a]["k"] in LOOPS and a not in set(f.ancestors(init))]
                        if outer:
                            top = outer[-1]
                            stale = any(top in set(f.ancestors(j)) for j in wr)
            cache[key] = stale
        return cache[key]

    def _fact(self, i, pol):
        k, flip = self.key(i)
        return (k, (not pol) if flip else pol)


class Flow:
    """Forward analysis of one function.

    events: {node id | (block, idx): [(op, token)]}, op in set/clear.
    start:  block id to start from (default entry); cut: set of (src, dst)
    edges not followed (used for per-iteration analyses of loops).
    """

    def __init__(self, prog, fn, events=None, start=None, cut=(), cg=None,
                 eh=True, split=None, edge_tokens=None):
        self.prog, self.fn, self.cg = prog, fn, cg
        # history predicate passed_edge(c, p): edge_tokens(key, pol) -> tokens set
        # when a path takes that edge (never killed by later writes)
        self.edge_tokens = edge_tokens
        self.split = split      # predicate on condition keys to partition on
        self.cn = CondNorm(fn, prog)
        self.cut = set(cut)
        self.ev = {}
        for k, v in (events or {}).items():
            if isinstance(k, tuple):
                self.ev.setdefault(k, []).extend(v)
            else:
                p = fn.pos_of(k)
                if p is None:
                    raise KeyError("event node %s of %s is not in the CFG" % (k, fn.qname))
                self.ev.setdefault(p, []).extend(v)
        self.ws = cg.writes_summary() if cg is not None else {}
        self.start = fn.entry if start is None else start
        self.IN = {}
        self.OUT = {}
        self._edge_facts = {}
        self._literal_cache = {}
        self.eh = eh
        self._try_blocks = self._compute_try_edges() if eh else {}
        self._run()

    # ---------------------------------------------------------- structure
    def succs(self, b):
        blk = self.fn.blocks[b]
        out = []
        for j, s in enumerate(blk["succ"]):
            if isinstance(s, int):
                out.append((j, s))
        return out

    def _compute_try_edges(self):
        """block id -> [dispatch block ids] for blocks with elements inside a try body."""
        f = self.fn
        disp = {}
        for b in f.cfg:
            t = b.get("term")
            if t and t.get("cls") == "CXXTryStmt" and "tid" in t:
                disp[t["tid"]] = b["id"]
        if not disp:
            return {}
        parent = {t["id"]: t["parent"] for t in f.d.get("tries", [])}
        res = {}
        for b in f.cfg:
            tids = set()
            for e in b["elems"]:
                n = e.get("n", -1)
                if n is not None and n >= 0:
                    t = f.nodes[n].get("try")
                    if t is not None:
                        tids.add(t)   # innermost try catches first
            ds = [disp[t] for t in tids if t in disp]
            if ds:
                res[b["id"]] = ds
        return res

    # ---------------------------------------------------------- transfer
    def _literal(self, i):
        f = self.fn
        i = f.strip(i)
        n = f.nodes[i]
        if n["k"] == "lit" and n["lk"] in ("bool", "int", "null"):
            return n["v"]
        if n["k"] == "ref" and n["dk"] == "enumconst":
            return n["name"]
        if n["k"] == "un" and n["op"] == "-":
            v = self._literal(n["sub"])
            return "-" + v if v is not None else None
        return None

    def _kill(self, conds, written):
        if not conds or not written:
            return conds
        w = set(written)
        kv = self.cn.key_vars
        return frozenset(c for c in conds if not (kv.get(c[0], frozenset()) & w))

    def _elem_transfer(self, b, idx, parts):
        f = self.fn
        e = f.blocks[b]["elems"][idx]
        n = e.get("n", -1)
        evs = self.ev.get((b, idx))
        written = []
        setvals = []   # (decl token, literal or None)
        if "dtor" not in e and n is not None and n >= 0:
            node = f.nodes[n]
            written = node_writes(f, n)
            if node["k"] in ("call", "construct") and node.get("cusr") in self.ws:
                written = written + list(self.ws[node["cusr"]])
            if node["k"] == "call" and node.get("virt") and self.cg is not None:
                for o in self.prog.overriders.get(node.get("cusr"), ()):
                    written = written + list(self.ws.get(o, ()))
            if node["k"] == "bin" and node["op"] == "=":
                t = f.var_token(node["l"])
                if t and t.startswith("L:"):
                    setvals.append((t, self._literal(node["r"])))
            elif node["k"] == "decl":
                for v in node.get("vars", []):
                    if "init" in v and (v.get("tw") in ("b", "i32", "u32", "e32", "i64", "u64") or self._literal(v["init"]) is not None and
                                        f.nodes[f.strip(v["init"])]["k"] == "ref"):
                        setvals.append(("L:" + v["decl"], self._literal(v["init"])))
        elif "dtor" in e and e.get("dusr") in self.ws:
            written = list(self.ws[e["dusr"]])
        if not written and not evs and not setvals:
            return parts
        out = {}
        wl = set(t for t in written if t.startswith("L:"))
        if self.split and written:
            ws_ = set(written)
            for val in parts:
                for t, _ in val:
                    if t.startswith("C:") and (self.cn.key_vars.get(t[2:], frozenset()) & ws_):
                        wl.add(t)
        for val, st in parts.items():
            must, may, conds = st.must, st.may, self._kill(st.conds, written)
            if evs:
                for op, tok in evs:
                    if op == "set":
                        must = must | {tok}
                        may = may | {tok}
                    elif op == "clear":
                        must = must - {tok}
                        may = may - {tok}
                    elif op == "mayset":      # possibly executed (e.g. inside callee)
                        may = may | {tok}
            nv = val
            if wl or setvals:
                d = dict(val)
                for t in wl:
                    d.pop(t, None)
                for t, lit in setvals:
                    if lit is not None:
                        d[t] = lit
                    else:
                        d.pop(t, None)
                nv = frozenset(d.items())
            s2 = St(must, may, conds)
            if nv in out:
                out[nv] = out[nv].merge(s2)
            else:
                out[nv] = s2
        return out

    def _block_transfer(self, b, parts, upto=None):
        elems = self.fn.blocks[b]["elems"]
        end = len(elems) if upto is None else upto
        for idx in range(end):
            parts = self._elem_transfer(b, idx, parts)
        return parts

    def edge_facts(self, b, j):
        key = (b, j)
        if key in self._edge_facts:
            return self._edge_facts[key]
        f = self.fn
        blk = f.blocks[b]
        t = blk.get("term")
        facts = []
        if t and "cond" in t and t["cond"] >= 0:
            if t["cls"] in BRANCH_TERMS and len(blk["succ"]) == 2:
                pol = (j == 0)
                facts = self.cn.decompose(t["cond"], pol)
                # the value of the whole (short-circuited) condition, where this edge decides it
                st = t.get("stmt", -1)
                if st is not None and st >= 0:
                    sn = f.nodes[st]
                    if t["cls"] == "BinaryOperator" and sn["k"] == "bin":
                        if (sn["op"] == "||" and pol) or (sn["op"] == "&&" and not pol):
                            facts = facts + [self.cn._fact(st, pol)]
                    elif sn["k"] in ("if", "while", "for", "do", "cond") and "c" in sn:
                        full = f.strip(sn["c"])
                        if full != f.strip(t["cond"]):
                            facts = facts + [x for x in self.cn.decompose(full, pol) if x not in facts]
                # hoisted locals: `const size_t n = v.size(); if (i < n)` states (i < v.size())
                for k_, p_ in list(facts):
                    if not isinstance(p_, bool):
                        continue
                    node_ = self.cn.key_node.get(k_)
                    if node_ is None:
                        continue
                    if f.nodes[f.strip(node_)]["k"] == "ref":
                        continue        # a bare boolean local: decompose() already looked through it
                    kh = self.cn.key_hoisted(node_)
                    if kh is not None:
                        k0, fl0 = self.cn.key(node_)
                        if k0 == k_ and (kh[0], p_) not in facts:
                            facts = facts + [(kh[0], p_)]
                # an if-chain over an enumeration / character is the same table as a switch: X == CONST on its true edge is
                # 'case:CONST' of scrutinee X (and 'not:CONST' on the false edge), so rules written for one spelling see the other
                extra = []
                kv_ = self.cn.key_vars

                def add_(src, k2, p2):
                    # a derived fact dies with the fact it was derived from
                    extra.append((k2, p2))
                    kv_[k2] = frozenset(kv_.get(k2, frozenset()) | kv_.get(src, frozenset()))
                for k_, p_ in facts:
                    if not isinstance(p_, bool):
                        continue
                    node_ = self.cn.key_node.get(k_)
                    if node_ is None:
                        continue
                    nn_ = f.nodes[f.strip(node_)]
                    if nn_["k"] == "bin" and nn_.get("op") in ("==", "!="):
                        sides = (nn_["l"], nn_["r"])
                    elif nn_["k"] == "call" and nn_.get("op") in ("==", "!=") and len(nn_.get("args", [])) == 2:
                        sides = (nn_["args"][0], nn_["args"][1])
                    else:
                        continue
                    eq = p_        # decompose() already canonicalised a != b into (a == b, flipped polarity)
                    for x_, y_ in (sides, sides[::-1]):
                        c_ = f.nodes[f.strip(y_)]
                        cname = None
                        if c_["k"] == "ref" and c_.get("dk") == "enumconst":
                            cname = c_["name"]
                        elif c_["k"] == "lit" and c_.get("lk") in ("char", "int") and f.nodes[f.strip(x_)]["k"] != "lit":
                            cname = str(c_.get("v"))
                        if cname is None:
                            continue
                        kx, _ = self.cn.key(x_)
                        extra.append((kx, ("case:" if eq else "not:") + cname))
                        break
                # a number / pointer used as a truth value and its comparison with zero are one test: `if (n)` / `if (n != 0)` / `if (0 != n)`
                for k_, p_ in list(facts):
                    if not isinstance(p_, bool) or not isinstance(k_, str):
                        continue
                    m_ = _ZERO_EQ.match(k_)
                    if m_:
                        x_ = m_.group(1) or m_.group(2)
                        if not re.match(r"^-?\d", x_):
                            add_(k_, x_, not p_)
                        continue
                    node_ = self.cn.key_node.get(k_)
                    if node_ is not None and not k_.startswith("(") and not k_.startswith("!") and not _SIZE_TRUTH.match(k_):
                        nn_ = f.nodes[f.strip(node_)]
                        if nn_.get("tw") in ("i8", "i16", "i32", "i64", "u8", "u16", "u32", "u64") and nn_["k"] in ("ref", "member", "call"):
                            add_(k_, "(0 == %s)" % k_, not p_)
                # emptiness tests in all their spellings: c.size() (as a truth value), c.size() == 0, c.size() > 0, c.empty()
                for k_, p_ in list(facts):
                    if not isinstance(p_, bool) or not isinstance(k_, str):
                        continue
                    m_ = _SIZE_TRUTH.match(k_)
                    if m_:
                        add_(k_, m_.group(1) + ".empty()", not p_)
                        continue
                    m_ = _SIZE_ZERO.match(k_)
                    if m_:
                        c_ = m_.group(1) or m_.group(2)
                        add_(k_, c_ + ".empty()", p_); add_(k_, c_ + ".size()", not p_)
                        continue
                    m_ = _SIZE_POS.match(k_)
                    if m_:
                        c_ = m_.group(1) or m_.group(2)
                        add_(k_, c_ + ".empty()", not p_); add_(k_, c_ + ".size()", p_)
                        continue
                    m_ = _EMPTY.match(k_)
                    if m_:
                        add_(k_, m_.group(1) + ".size()", not p_)
                # the two spellings of reading an optional-like value used as a truth value: *x and x.value()
                for k_, p_ in list(facts):
                    if not isinstance(p_, bool) or not isinstance(k_, str):
                        continue
                    m_ = re.match(r"^([A-Za-z_][\w.>-]*)\.value\(\)$", k_)
                    if m_:
                        add_(k_, "*" + m_.group(1), p_)
                        continue
                    m_ = re.match(r"^\*([A-Za-z_][\w.>-]*)$", k_)
                    if m_:
                        add_(k_, m_.group(1) + ".value()", p_)
                # predicate helpers: a condition that is a call of a one-line 'return <expr>;' function of this program contributes the
                # facts of that expression with the parameters replaced by the call's arguments
                for k_, p_ in list(facts):
                    if not isinstance(p_, bool):
                        continue
                    node_ = self.cn.key_node.get(k_)
                    if node_ is None:
                        continue
                    for k2_, p2_ in self._helper_facts(node_, p_):
                        add_(k_, k2_, p2_)
                    for k2_, p2_ in self._search_facts(node_, p_):
                        add_(k_, k2_, p2_)
                facts = facts + [e_ for e_ in extra if e_ not in facts]
            elif t["cls"] == "SwitchStmt":
                s = blk["succ"][j]
                tgt = s if isinstance(s, int) else None
                lab = f.blocks[tgt].get("label") if tgt is not None else None
                k, _ = self.cn.key(t["cond"])
                if lab and lab.get("k") == "case":
                    facts = [(k, "case:" + str(lab.get("name", lab.get("val"))))]
                else:
                    facts = [(k, "default")]
                # `const auto fmt = classify(x); switch (fmt)` states the same about classify(x)
                try:
                    kh = self.cn.key_hoisted(t["cond"])
                except Exception:
                    kh = None
                if kh is not None and kh[0] != k:
                    facts = facts + [(kh[0], facts[0][1])]
        self._edge_facts[key] = facts
        return facts

    def _search_facts(self, node, pol):
        """`it = std::find_if(b, e, pred); if (it != e)`: on the found edge pred(*it) holds.  The predicate is a closure of this
        program with a single `return <expr>;`; its facts are contributed with the parameter replaced by (*it).  Likewise
        `it = std::find(b, e, v)`: (*it == v) on the found edge."""
        f = self.fn
        n = f.nodes[f.strip(node)]
        if n["k"] == "bin" and n.get("op") in ("==", "!="):
            sides = (n["l"], n["r"])
        elif n["k"] == "call" and n.get("op") in ("==", "!=") and ("recv" in n and len(n.get("args", [])) == 1 or len(n.get("args", [])) == 2):
            sides = (n["recv"], n["args"][0]) if "recv" in n else (n["args"][0], n["args"][1])
        else:
            return []
        # decompose() canonicalised `!=`: the fact's key is the == form; pol False means 'not at the end' = found
        if pol is not False:
            return []
        out = []
        for x, y in (sides, sides[::-1]):
            xn = f.nodes[f.strip(x)]
            yn = f.nodes[f.strip(y)]
            if xn["k"] != "ref" or xn.get("dk") != "local" or not (yn["k"] == "call" and yn.get("cname") in ("end", "cend", "rend", "crend")):
                continue
            init = self.cn.single_init().get(xn.get("decl"))
            if init is None:
                continue
            c = f.nodes[f.strip(init)]
            if c["k"] != "call" or len(c.get("args", [])) != 3:
                continue
            cal = (c.get("callee") or c.get("cname") or "")
            it = xn["name"]
            if re.search(r"\bfind_if(_not)?\b", cal):
                ln = f.nodes[f.strip(c["args"][2])]
                lusr = ln.get("lusr")
                if lusr is None and ln["k"] == "ref":
                    i2 = self.cn.single_init().get(ln.get("decl"))
                    lusr = f.nodes[f.strip(i2)].get("lusr") if i2 is not None else None
                h = self.prog.closure_fn(lusr) if lusr else None
                if h is None or len(h.params) != 1:
                    continue
                rets = [i for i, m in enumerate(h.nodes) if m["k"] == "return" and "val" in m]
                if len(rets) != 1 or any(m["k"] in ("decl", "if", "for", "while", "switch") for m in h.nodes):
                    continue
                want = "find_if_not" not in cal
                try:
                    sub = CondNorm(h, self.prog).decompose(h.nodes[rets[0]]["val"], want)
                except Exception:
                    continue
                pn = h.params[0]["name"]
                for k2, p2 in sub:
                    if isinstance(k2, str):
                        out.append((re.sub(r"(?<![\w.>])%s(?![\w(])" % re.escape(pn), "(*%s)" % it, k2), p2))
            elif re.search(r"\bfind\b", cal):
                out.append(("(*%s == %s)" % (it, f.text(c["args"][2])), True))
        return out

    def _helper_facts(self, node, pol):
        f = self.fn
        n = f.nodes[f.strip(node)]
        if n["k"] != "call" or not n.get("cusr") or "op" in n:
            return []
        hs = [self.prog.fns[u] for u in self.prog.resolve(n["cusr"]) if u in self.prog.fns]
        if len(hs) != 1:
            return []
        h = hs[0]
        rets = [i for i, m in enumerate(h.nodes) if m["k"] == "return" and "val" in m]
        if len(rets) != 1 or len(h.cfg) > 16 or any(m["k"] in ("decl", "if", "for", "while", "switch") for m in h.nodes):
            return []
        args = n.get("args", [])
        if len(args) != len(h.params):
            return []
        hcn = CondNorm(h)
        out = []
        try:
            sub = hcn.decompose(h.nodes[rets[0]]["val"], pol)
        except Exception:
            return []
        names = {p["name"]: f.text(a) for p, a in zip(h.params, args) if p.get("name")}
        for k2, p2 in sub:
            if not isinstance(k2, str):
                continue
            t = k2
            for pn, at in names.items():
                t = re.sub(r"(?<![\w.>])%s(?![\w(])" % re.escape(pn), at.replace("\\", "\\\\"), t)
            out.append((t, p2))
        return out

    def _edge_transfer(self, b, j, parts):
        facts = self.edge_facts(b, j)
        if not facts:
            return parts
        f = self.fn
        out = {}
        for val, st in parts.items():
            d = dict(val)
            feasible = True
            for k, pol in facts:
                node = self.cn.key_node.get(k)
                if node is None:
                    continue
                nn = f.nodes[f.strip(node)]
                # flag test: bare local
                if nn["k"] == "ref" and nn["dk"] in ("local", "param") and isinstance(pol, bool):
                    t = "L:" + nn.get("decl", nn["name"])
                    want = "true" if pol else "false"
                    if t in d:
                        cur = d[t]
                        curb = cur if cur in ("true", "false") else (
                            "false" if cur in ("0", "nullptr") else "true")
                        if curb != want:
                            feasible = False
                            break
                    elif nn.get("tw") == "b":
                        d[t] = want
                # switch (local): the case edge is taken only by the paths on which the local holds that constant
                elif nn["k"] == "ref" and nn["dk"] in ("local", "param") and isinstance(pol, str) and pol.startswith("case:"):
                    t = "L:" + nn.get("decl", nn["name"])
                    if t in d and d[t] is not None and str(d[t]) != pol[5:]:
                        feasible = False
                        break
                    d[t] = pol[5:]
                # var == CONST
                elif nn["k"] == "bin" and nn["op"] in ("==", "!=") and isinstance(pol, bool):
                    for x, y in ((nn["l"], nn["r"]), (nn["r"], nn["l"])):
                        t = f.var_token(x)
                        lit = self._literal(y)
                        if t and t.startswith("L:") and lit is not None:
                            # key() canonicalised != into == with flipped polarity
                            if t in d:
                                if (d[t] == lit) != pol:
                                    feasible = False
                            elif pol:
                                d[t] = lit
                            break
                    if not feasible:
                        break
                # a contradicting must-fact already present
                if (k, (not pol) if isinstance(pol, bool) else None) in st.conds:
                    feasible = False
                    break
            if not feasible:
                continue
            if self.split:
                for k, pol in facts:
                    if self.split(k):
                        d["C:" + k] = pol
            conds = st.conds | frozenset(facts)
            nv = frozenset(d.items())
            must, may = st.must, st.may
            if self.edge_tokens:
                for k, pol in facts:
                    toks = self.edge_tokens(k, pol)
                    if toks:
                        must = must | frozenset(toks)
                        may = may | frozenset(toks)
            s2 = St(must, may, conds)
            out[nv] = out[nv].merge(s2) if nv in out else s2
        return out

    def _run(self):
        f = self.fn
        if self.start is None:
            return
        self.IN[self.start] = {frozenset(): St()}
        work = [self.start]
        inwork = {self.start}
        iters = 0
        while work:
            b = work.pop(0)
            inwork.discard(b)
            iters += 1
            if iters > 20000:
                raise RuntimeError("dataflow did not converge in " + f.qname)
            parts = self._block_transfer(b, self.IN[b])
            self.OUT[b] = parts
            targets = []
            for j, s in self.succs(b):
                if (b, s) in self.cut:
                    continue
                targets.append((s, self._edge_transfer(b, j, parts)))
            for d in self._try_blocks.get(b, ()):
                # an exception may leave the block at any element
                weak, _ = _merge_states(dict(self.IN[b]), parts)
                # collapse flags: unknown which assignments happened
                targets.append((d, weak))
            for s, p in targets:
                if not p:
                    continue
                merged, ch = _merge_states(self.IN.get(s), p)
                if ch:
                    self.IN[s] = merged
                    if s not in inwork:
                        work.append(s)
                        inwork.add(s)

    # ---------------------------------------------------------- queries
    def at_pos(self, pos):
        b, idx = pos
        if b not in self.IN:
            return None
        return self._block_transfer(b, self.IN[b], upto=idx)

    def at(self, node):
        """Partitions just before node executes (None if unreachable)."""
        p = self.fn.pos_of(node) if not isinstance(node, tuple) else node
        if p is None:
            raise KeyError("node %s not in CFG of %s" % (node, self.fn.qname))
        return self.at_pos(p)

    def after(self, node):
        p = self.fn.pos_of(node) if not isinstance(node, tuple) else node
        b, idx = p
        if b not in self.IN:
            return None
        return self._block_transfer(b, self.IN[b], upto=idx + 1)

    def reachable(self, node):
        s = self.at(node)
        return bool(s)

    def must(self, node, tok):
        s = self.at(node)
        return bool(s) and all(tok in st.must for st in s.values())

    def may(self, node, tok):
        s = self.at(node)
        return bool(s) and any(tok in st.may for st in s.values())

    def guards(self, node):
        """Condition facts holding in every partition before node."""
        s = self.at(node)
        if not s:
            return frozenset()
        it = iter(s.values())
        c = next(it).conds
        for st in it:
            c = c & st.conds
        return c

    def guarded(self, node, pred):
        """pred(key, polarity, atom node id) true for some fact in every partition."""
        s = self.at(node)
        if not s:
            return False
        for st in s.values():
            if not any(pred(k, p, self.cn.key_node.get(k)) for k, p in st.conds):
                return False
        return True

    def exits(self):
        """[(kind, node or None, block id, partitions at the end of the block)]"""
        f = self.fn
        res = []
        for b in f.cfg:
            bid = b["id"]
            if bid not in self.OUT or b.get("exit"):
                continue
            to_exit = any(isinstance(s, int) and s == f.exit for s in b["succ"])
            if not to_exit and not b.get("noreturn"):
                continue
            kind, node = "fallthrough", None
            if b.get("noreturn"):
                kind = "abort"
            for e in b["elems"]:
                n = e.get("n", -1)
                if "dtor" in e or n is None or n < 0:
                    continue
                k = f.nodes[n]["k"]
                if k == "return":
                    kind, node = "return", n
                elif k == "throw":
                    kind, node = "throw", n
            res.append((kind, node, bid, self.OUT[bid]))
        return res


_SIZE_TRUTH = re.compile(r"^(.+)\.(?:size|length)\(\)$")
_SIZE_ZERO = re.compile(r"^\(0 == (.+)\.(?:size|length)\(\)\)$|^\((.+)\.(?:size|length)\(\) == 0\)$")
_SIZE_POS = re.compile(r"^\(0 < (.+)\.(?:size|length)\(\)\)$|^\((.+)\.(?:size|length)\(\) > 0\)$")
_EMPTY = re.compile(r"^(.+)\.empty\(\)$")
_ZERO_EQ = re.compile(r"^\((?:0|nullptr) == (.+)\)$|^\((.+) == (?:0|nullptr)\)$")


def dominators(fn):
    """block id -> set of dominating block ids (entry-reachable blocks only)."""
    ids = [b["id"] for b in fn.cfg]
    succ = {b["id"]: [s for s in b["succ"] if isinstance(s, int)] for b in fn.cfg}
    pred = {i: [] for i in ids}
    for u, ss in succ.items():
        for v in ss:
            pred[v].append(u)
    reach, stack = set(), [fn.entry]
    while stack:
        u = stack.pop()
        if u in reach:
            continue
        reach.add(u)
        stack.extend(succ[u])
    dom = {i: set(reach) for i in reach}
    dom[fn.entry] = {fn.entry}
    changed = True
    while changed:
        changed = False
        for i in reach:
            if i == fn.entry:
                continue
            ps = [dom[p] for p in pred[i] if p in reach]
            new = set.intersection(*ps) if ps else set()
            new = new | {i}
            if new != dom[i]:
                dom[i] = new
                changed = True
    return dom, succ, pred


def loops(fn):
    """Natural loops: [{head, back_edges, body(blocks), stmt(node id or None)}]"""
    dom, succ, pred = dominators(fn)
    by_head = {}
    for u in dom:
        for v in succ[u]:
            if v in dom.get(u, ()):
                by_head.setdefault(v, []).append(u)
    res = []
    for h, tails in by_head.items():
        body = {h}
        stack = list(tails)
        while stack:
            x = stack.pop()
            if x in body:
                continue
            body.add(x)
            stack.extend(p for p in pred[x] if p in dom)
        stmt = None
        t = fn.blocks[h].get("term")
        if t and t.get("cls") in ("ForStmt", "WhileStmt", "CXXForRangeStmt", "DoStmt"):
            stmt = t.get("stmt")
        else:
            # do-while: the head is the body start; find the tail's terminator
            for tl in tails:
                for p in [tl] + pred[tl]:
                    tt = fn.blocks[p].get("term")
                    if tt and tt.get("cls") == "DoStmt":
                        stmt = tt.get("stmt")
        res.append({"head": h, "back_edges": [(t_, h) for t_ in tails], "body": body, "stmt": stmt})
    return res


def loop_of_stmt(fn, stmt_node):
    for l in loops(fn):
        if l["stmt"] == stmt_node:
            return l
    return None


def enumerate_paths(prog, fn, max_paths=4096, cg=None):
    """All entry->exit paths of an acyclic function (back edges are not followed).
    Yields lists of steps: ("node", id) for CFG elements, ("edge", key, polarity)
    for condition facts.  Raises ValueError beyond max_paths."""
    fl = Flow(prog, fn, cg=cg)          # for edge_facts / condition keys
    dom, succ, pred = dominators(fn)
    back = set()
    for u in dom:
        for v in succ[u]:
            if v in dom.get(u, ()):
                back.add((u, v))
    out = []
    count = [0]

    def walk(b, acc):
        blk = fn.blocks[b]
        steps = list(acc)
        for e in blk["elems"]:
            if "dtor" in e:
                continue
            n = e.get("n", -1)
            if n is not None and n >= 0:
                steps.append(("node", n))
        nxt = [(j, s) for j, s in enumerate(blk["succ"]) if isinstance(s, int) and (b, s) not in back]
        if not nxt or blk.get("exit"):
            count[0] += 1
            if count[0] > max_paths:
                raise ValueError("too many paths in " + fn.qname)
            out.append(steps)
            return
        for j, s in nxt:
            st2 = list(steps)
            for k, p in fl.edge_facts(b, j):
                st2.append(("edge", k, p))
            walk(s, st2)

    walk(fn.entry, [])
    return out, fl
