"""Check driver: loads facts, runs one property's rules, prints the verdict,
writes evidence.  Exit codes: 0 ok / 1 VIOLATION / 2 analysis broken."""
import importlib
import json
import os
import re
import sys
import time
import traceback

from . import program, callgraph
from .facts import AnalysisBroken, VERIF

KNOWN = os.path.join(VERIF, "known_findings.txt")
EVID = os.path.join(VERIF, "evidence")


class Ob:
    """One rule instance (obligation)."""
    __slots__ = ("inst", "rule", "status", "loc", "msg", "witness")

    def __init__(self, inst, rule, status, loc, msg, witness=None):
        self.inst, self.rule, self.status = inst, rule, status
        self.loc, self.msg, self.witness = loc, msg, witness or []

    def as_dict(self):
        return {"instance": self.inst, "rule": self.rule, "verdict": self.status,
                "at": self.loc, "detail": self.msg, "witness": self.witness}


class Ctx:
    def __init__(self, pid, prog, cg, stats, tier, seed):
        self.pid, self.prog, self.cg = pid, prog, cg
        self.stats, self.tier, self.seed = stats, tier, seed
        self.obs = []
        self.counters = {}
        self.fns_analysed = set()
        self.notes = []
        self.tables = {}

    # instance ids are keyed by rule + function + anchor, never by line
    def ok(self, inst, rule, loc, msg=""):
        self.obs.append(Ob(inst, rule, "discharged", loc, msg))

    def violation(self, inst, rule, loc, msg, witness=None):
        if rule == "anchor":
            # a rule that could not find the construct it reads (a loop, a closure, a local) cannot judge the code: that is
            # 'analysis broken' (exit 2), never a verdict
            self.obs.append(Ob(inst, rule, "broken", loc, msg))
            return
        self.obs.append(Ob(inst, rule, "violated", loc, msg, witness))

    def broken(self, inst, rule, loc, msg):
        self.obs.append(Ob(inst, rule, "broken", loc, msg))

    def check(self, cond, inst, rule, loc, msg_ok, msg_bad, witness=None):
        if cond:
            self.ok(inst, rule, loc, msg_ok)
        else:
            self.violation(inst, rule, loc, msg_bad, witness)
        return cond

    def count(self, key, n=1):
        self.counters[key] = self.counters.get(key, 0) + n

    def floor(self, key, minimum, what):
        """Instance floor: a rule matching fewer sites than confirmed by hand is broken."""
        got = self.counters.get(key, 0)
        if got < minimum:
            self.broken("floor:" + key, "instance-floor", "-",
                        "%s: matched %d, floor is %d" % (what, got, minimum))

    def anchor(self, fn, *names):
        """The rules below refer to these locals / parameters of fn (or of its closures) by name.
        If one is gone (renamed) the rules cannot judge the code: analysis broken, not a violation."""
        have = set(p["name"] for p in fn.params)
        fns = [fn] + [g for g in self.prog.fns.values() if g.d.get("parentfn") == fn.usr]
        for g in list(fns):
            fns += [h for h in self.prog.fns.values() if h.d.get("parentfn") == g.usr and h not in fns]
        for g in fns:
            have |= set(p["name"] for p in g.params)
            for n in g.nodes:
                if n["k"] == "decl":
                    for v in n.get("vars", []):
                        have.add(v["name"])
                        have |= {b.split("@")[0] for b in v.get("bindings", [])}
        missing = [x for x in names if x not in have]
        if missing:
            # the rules that read this function by these names cannot judge it: they are 'analysis broken'.  The other rules of the
            # property still run; whatever the name-bound rules then report inside this function is not a verdict (see
            # _unanchored_functions, applied after the run).
            self.broken("anchor:" + fn.pq.replace("Oomd::", ""), "anchor", fn.loc(),
                        "anchor name(s) %s not found in %s (renamed?): the rules for this function cannot be evaluated" % (", ".join(missing), fn.pq))
            self.__dict__.setdefault("unanchored", []).append((fn.file, fn.line, fn.d.get("endline", fn.line), fn.pq))
        return fn

    def use(self, fn):
        self.fns_analysed.add(fn.usr)
        return fn

    def fn1(self, qname, pick=None):
        return self.use(self.prog.fn1(qname, pick=pick))

    def fns(self, qname, pick=None):
        res = self.prog.fn(qname, pick=pick)
        for f in res:
            self.use(f)
        return res


def load_known():
    """known_findings.txt -> {pid: {instance: description}}, fixed list."""
    known, fixed = {}, []
    try:
        for line in open(KNOWN):
            line = line.strip()
            if not line or line.startswith("#"):
                continue
            m = re.match(r"finding:\s+property=(C\d+)\s+instance=(\S+)\s*(.*)", line)
            if m:
                known.setdefault(m.group(1), {})[m.group(2)] = m.group(3)
                continue
            m = re.match(r"fixed:\s+property=(C\d+)\s+(\S+)\s+(.*)", line)
            if m:
                fixed.append((m.group(1), m.group(2), m.group(3)))
    except OSError:
        pass
    return known, fixed


def write_evidence(pid, tier, seed, mod, ctx, wall, extra=None, status="ok"):
    os.makedirs(EVID, exist_ok=True)
    obs = ctx.obs if ctx else []
    n_ok = sum(1 for o in obs if o.status == "discharged")
    n_bad = sum(1 for o in obs if o.status == "violated")
    n_broken = sum(1 for o in obs if o.status == "broken")
    known, fixed = load_known()
    kn = known.get(pid, {})
    unlisted = [o for o in obs if o.status == "violated" and o.inst not in kn]
    listed = [o for o in obs if o.status == "violated" and o.inst in kn]
    samples = [o.as_dict() for o in obs if o.status != "discharged"][:20]
    samples += [o.as_dict() for o in obs if o.status == "discharged"][:25]
    cov = {
        "explanation": getattr(mod, "EXPLANATION", "") if mod else "",
        "rule": getattr(mod, "RULE_SUMMARY", "") if mod else "",
        "clauses_not_decided": getattr(mod, "NOT_DECIDED", []) if mod else [],
        "units": ctx.stats.get("units", 0) if ctx else 0,
        "functions_in_program": len(ctx.prog.fns) if ctx else 0,
        "functions_analysed": len(ctx.fns_analysed) if ctx else 0,
        "call_graph_edges": sum(len(v) for v in ctx.cg.out.values()) if ctx else 0,
        "obligations": len(obs),
        "discharged": n_ok,
        "violated_unlisted": len(unlisted),
        "violated_known_findings": len(listed),
        "analysis_broken": n_broken,
        "evaluations": max(1, len(obs)),
        "distinct_nontrivial": len({o.inst for o in obs if o.loc and o.loc != "-"}),
        "counters": ctx.counters if ctx else {},
        "tables": ctx.tables if ctx else {},
        "samples": samples if samples else [{"note": "no obligations evaluated"}],
        "known_findings": [{"instance": o.inst, "at": o.loc, "detail": o.msg} for o in listed],
        "fixed_entries_for_property": [list(x) for x in fixed if x[0] == pid],
        "notes": ctx.notes if ctx else [],
        "normalisations": {
            "what": "applied to the extracted program before any rule ran (analysis/inline.py, Program._canonical_params); empty on the reference tree",
            "inlined_helpers": list(getattr(ctx.prog, "folded_helpers", [])) if ctx else [],
            "parameters_renamed_to_reference_names": list(getattr(ctx.prog, "params_canonicalised", [])) if ctx else [],
        },
        "exhaustive": False,
        "status": status,
    }
    if extra:
        cov.update(extra)
    ev = {
        "property_id": pid,
        "tier": tier,
        "seed": seed,
        "level": "other",
        "coverage": cov,
        "assumptions": list(getattr(mod, "ASSUMPTIONS", [])) + [
            "clang 14 parser, Sema and CFG builder are trusted",
            "facts are extracted from /repo's working tree on this run (content-hash keyed cache)",
            "resource exhaustion (bad_alloc, thread creation failure) is outside every fault model",
        ] if mod else [],
        "wall_s": round(wall, 3),
        "violations": len(unlisted),
    }
    path = os.path.join(EVID, pid + ".json")
    tmp = path + ".tmp.%d" % os.getpid()
    with open(tmp, "w") as f:
        json.dump(ev, f, indent=1)
    os.replace(tmp, path)
    return path


def run_rules(pid, repo, tier="quick", seed=0):
    """Returns (ctx, mod). Raises AnalysisBroken."""
    prog, st = program.load(repo)
    cg = callgraph.CallGraph(prog)
    if cg.gaps:
        f, n, r = cg.gaps[0]
        raise AnalysisBroken("call graph has %d unresolved callable(s), first: %s %s: %s" % (
            len(cg.gaps), f.qname, f.loc(n) if isinstance(n, int) else n, r))
    ctx = Ctx(pid, prog, cg, st, tier, seed)
    mod = importlib.import_module("analysis.rules." + pid)
    try:
        mod.run(ctx)
    except AnalysisBroken as e:
        # a vanished anchor stops the remaining rules of this property, but what the earlier rules established (and found) stands
        ctx.broken("analysis-broken", "anchor", "-", str(e))
    except Exception as e:
        tb = traceback.format_exc().strip().splitlines()
        ctx.broken("internal-error", "engine", "-", "%s: %s (%s)" % (type(e).__name__, e, tb[-3].strip() if len(tb) >= 3 else ""))
    _boolean_options_read_by_value(ctx)
    _unfollowed_helpers(ctx)
    _unanchored_functions(ctx)
    return ctx, mod


def _boolean_options_read_by_value(ctx):
    """Generic E-TYPE rule applied to every function a property's rules analysed: a std::optional<bool> is not tested for presence where its
    value is never read (`if (flag_)` on an optional<bool> is true for an explicit `false`).  Every rule that reads a condition such as
    `recursive_ && ...` or `... || alwaysContinue_` by its text relies on the flag being a plain bool there."""
    from .rules.common import presence_tests_without_value_read
    n = 0
    try:
        for usr in sorted(ctx.fns_analysed):
            f = ctx.prog.fns.get(usr)
            if f is None or f.kind == "lambda":
                continue
            n += 1
            for g, i, et, rt in presence_tests_without_value_read(ctx.prog, f):
                ctx.violation("option-value-is-read:%s:%s" % (f.pq.replace("Oomd::", ""), et.replace("this->", "")), "E-TYPE (presence test on a boolean option)", g.loc(i),
                              "%s is a %s and is only ever tested for presence in %s: an explicitly configured `false` counts as true "
                              "(the option's value is never read)" % (et, rt, f.pq))
    except Exception as e:
        ctx.broken("option-value-is-read", "engine", "-", "%s: %s" % (type(e).__name__, e))
        return
    if n:
        ctx.ok("option-value-is-read", "E-TYPE (presence test on a boolean option)", "-", "no boolean option is tested for presence only in the %d functions analysed" % n)


def _unanchored_functions(ctx):
    """Findings located inside a function whose name anchors are gone are not verdicts (the rules spelled conditions and values with
    names that no longer exist): they become 'analysis broken'.  Interprocedural and type rules are not name-bound and keep theirs."""
    import re
    un = getattr(ctx, "unanchored", [])
    if not un:
        return
    for o in ctx.obs:
        if o.status != "violated" or any(x in (o.rule or "") for x in _INTERPROCEDURAL):
            continue
        m = re.match(r"^(.*?):(\d+)", o.loc or "")
        if not m:
            continue
        for file_, a_, b_, pq in un:
            if m.group(1) == file_ and a_ <= int(m.group(2)) <= b_:
                o.status = "broken"
                o.msg = "not a verdict: %s lost the local names this rule reads it by - %s" % (pq, o.msg)
                break


_INTERPROCEDURAL = ("interprocedural", "through helpers", "helpers followed", "E-ESCAPE", "who-may", "E-TYPE", "lockset", "E-LOCK", "field-read", "storage_class", "effect")


def _unfollowed_helpers(ctx):
    """An intraprocedural rule that names, in what it found, a call of a function which does not exist on the reference tree and was
    not folded back into its caller (analysis/inline.py) has judged code it could not follow: the verdict becomes 'analysis broken'.
    Interprocedural rules (escape analysis, who-may-call, summaries, type rules) follow helpers themselves and keep their verdicts."""
    import re
    from .inline import known_functions
    kk = known_functions()
    if kk is None:
        return
    known = kk[0]
    new = {f.name for f in ctx.prog.fns.values()
           if f.file.startswith("oomd/") and f.kind in ("function", "method") and not f.d.get("parentfn")
           and not f.d.get("inlined_into") and program.plain(f.d["qname"]) not in known and not f.name.startswith("operator") and len(f.name) > 3}
    from .inline import closure_holder
    for l in ctx.prog.fns.values():
        if l.kind == "lambda" and l.file.startswith("oomd/") and "@in:" not in l.usr:
            par, holder = closure_holder(ctx.prog, l)
            if par is not None and holder and len(holder) > 3 and ("%s|%s" % (par.pq, holder)) not in kk[1]:
                new.add(holder)
    if not new:
        return
    rx = re.compile(r"\b(%s)\(" % "|".join(sorted(map(re.escape, new))))
    # where the new helpers are: a finding INSIDE one whose evidence ends at one of the helper's parameters was not traced to the callers
    spans = [(f.file, f.line, f.d.get("endline", f.line), f) for f in ctx.prog.fns.values()
             if f.file.startswith("oomd/") and f.kind in ("function", "method") and f.name in new and not f.d.get("inlined_into")]
    for o in ctx.obs:
        if o.status != "violated" or any(x in (o.rule or "") for x in _INTERPROCEDURAL):
            continue
        text = (o.msg or "") + " " + " ".join(map(str, o.witness or []))
        m = rx.search(text)
        if m:
            o.status = "broken"
            o.msg = "cannot be decided: what the rule found goes through the new helper %s(), which it does not follow - %s" % (m.group(1), o.msg)
            continue
        ml = re.match(r"^(.*?):(\d+)", o.loc or "")
        if not ml:
            continue
        for file_, a_, b_, hf in spans:
            if ml.group(1) == file_ and a_ <= int(ml.group(2)) <= b_:
                pn = [p_["name"] for p_ in hf.params if re.search(r"\bparam:%s\b" % re.escape(p_["name"]), text)]
                if pn:
                    o.status = "broken"
                    o.msg = "cannot be decided: the finding lies inside the new helper %s() and ends at its parameter(s) %s, which the rule does not trace to the callers - %s" % (hf.name, ", ".join(pn), o.msg)
                break


def main(argv):
    import argparse
    ap = argparse.ArgumentParser()
    ap.add_argument("pid")
    ap.add_argument("--tier", default=os.environ.get("VERIF_TIER", "quick"))
    ap.add_argument("--root", default="/repo")
    ap.add_argument("--replay")
    ap.add_argument("--no-evidence", action="store_true")
    ap.add_argument("--json", action="store_true", help="print obligations as JSON (for mutant runs)")
    a = ap.parse_args(argv)
    pid = a.pid
    tier = a.tier if a.tier in ("quick", "thorough") else "quick"
    try:
        seed = int(os.environ.get("VERIF_SEED", "0"))
    except ValueError:
        seed = 0
    t0 = time.time()
    ctx = mod = None
    try:
        ctx, mod = run_rules(pid, a.root, tier, seed)
        extra = None
        if tier == "thorough" and not a.json and not a.replay:
            from . import mutants
            extra = mutants.run_suite(pid, a.root, seed)
            if extra.get("mutants_missed") or extra.get("negative_controls_alarmed"):
                for m in extra.get("mutants_missed", []):
                    ctx.broken("mutant:" + m, "positive-control", "-",
                               "seeded violation not detected: " + m)
                for m in extra.get("negative_controls_alarmed", []):
                    ctx.broken("refactor:" + m, "negative-control", "-",
                               "behaviour-preserving variant raised an alarm: " + m)
    except AnalysisBroken as e:
        print("ANALYSIS-BROKEN property=%s %s" % (pid, e))
        if not a.no_evidence:
            write_evidence(pid, tier, seed, mod, ctx, time.time() - t0, status="analysis-broken: %s" % e)
        return 2
    except Exception:
        traceback.print_exc()
        print("ANALYSIS-BROKEN property=%s internal error" % pid)
        if not a.no_evidence:
            write_evidence(pid, tier, seed, mod, ctx, time.time() - t0, status="internal error")
        return 2

    if a.json:
        print(json.dumps([o.as_dict() for o in ctx.obs]))
        return 0

    known, fixed = load_known()
    kn = known.get(pid, {})
    unlisted = [o for o in ctx.obs if o.status == "violated" and o.inst not in kn]
    listed = [o for o in ctx.obs if o.status == "violated" and o.inst in kn]
    broken = [o for o in ctx.obs if o.status == "broken"]
    n_ok = sum(1 for o in ctx.obs if o.status == "discharged")

    if a.replay:
        try:
            want = json.load(open(a.replay))["instance"]
        except Exception as e:
            print("cannot read replay file: %s" % e)
            return 2
        hit = [o for o in ctx.obs if o.inst == want]
        for o in hit:
            print("%s: %s [%s] %s: %s" % (o.loc, o.status.upper(), o.rule, o.inst, o.msg))
            for w in o.witness:
                print("    " + w)
        if not hit:
            print("instance %s no longer exists on this tree" % want)
            return 2
        return 1 if any(o.status == "violated" for o in hit) else 0

    print("property %s tier=%s: %d obligations, %d discharged, %d known findings, %d violations, %d broken (%d functions analysed, %.1fs)" % (
        pid, tier, len(ctx.obs), n_ok, len(listed), len(unlisted), len(broken),
        len(ctx.fns_analysed), time.time() - t0))
    for o in listed:
        print("KNOWN-FINDING: property=%s %s at %s: %s" % (pid, o.inst, o.loc, o.msg))
    rc = 0
    if broken:
        for o in broken:
            print("ANALYSIS-BROKEN property=%s [%s] %s: %s" % (pid, o.rule, o.inst, o.msg))
        rc = 2
    if unlisted:
        os.makedirs(os.path.join(EVID, "replay"), exist_ok=True)
        for k, o in enumerate(unlisted):
            print("%s: [%s] %s: %s" % (o.loc, o.rule, o.inst, o.msg))
            for w in o.witness[:12]:
                print("    " + w)
            rp = os.path.join(EVID, "replay", "%s-%d.json" % (pid, k))
            with open(rp, "w") as f:
                json.dump(o.as_dict(), f, indent=1)
            print("VIOLATION property=%s replay=%s" % (pid, rp))
        rc = 1
    if not a.no_evidence:
        write_evidence(pid, tier, seed, mod, ctx, time.time() - t0, extra=extra,
                       status="ok" if rc == 0 else ("violation" if rc == 1 else "analysis-broken"))
    return rc


if __name__ == "__main__":
    sys.exit(main(sys.argv[1:]))
