"""Folding NEW single-caller helpers back into their caller (facts level).

A refactor that moves a block of a long function into a new private helper (or the reverse of it) does not change behaviour,
but every intraprocedural rule that reads the long function would lose sight of the moved block.  Rather than teaching each
rule about helpers, the merged program is normalised: a function that does not exist on the reference tree
(analysis/known_functions.json), is defined in the project, is not virtual / a constructor / an operator, and is called from
exactly ONE place, is spliced into its caller's node table and CFG when the call has one of three clean shapes

    helper(args);                       statement call   (helper's returns fall through to the statement after the call)
    return helper(args);                tail call        (helper's returns become the caller's returns)
    T v = helper(args);                 initialiser      (helper has a single trailing `return e;`  ->  T v = e;
                                                          or all its returns are `return l;` of one local l  ->  l is v)

and every argument is side-effect free and simple (a variable, `this`, a member chain, a literal, a dereference of one).
Parameters bound to a plain variable are alpha-renamed to it; other simple arguments are substituted node for node.
On the reference tree nothing is folded (no function is new), so the pinned tree is analysed exactly as written; the folds
applied to a changed tree are listed in every evidence file (`inlined_helpers`).  A helper that does not fit is left alone: the
rules then see a call, and answer through their summaries or with "analysis broken" - never with a verdict about code they
could not follow.
"""
import copy
import json
import os

from .program import _LIST_KEYS, _NODE_KEYS, plain

KNOWN = os.path.join(os.path.dirname(os.path.abspath(__file__)), "known_functions.json")
_REF_KEYS = _NODE_KEYS + ("val",)


def known_functions():
    """(set of known function names, set of known 'parent|holder' closures) of the reference tree, or None without the table"""
    try:
        with open(KNOWN) as fh:
            d = json.load(fh)
        if isinstance(d, list):
            return set(d), set()
        return set(d.get("functions", [])), set(d.get("closures", []))
    except (OSError, ValueError):
        return None


def closure_holder(prog, l):
    """(parent function, name of the local that holds closure l) or (None, None)"""
    par = prog.fns.get(l.d.get("parentfn"))
    if par is None:
        return None, None
    for d in par.all("decl"):
        for v in par.nodes[d].get("vars", []):
            if v.get("init") is not None and v.get("init", -1) >= 0 and par.nodes[par.strip(v["init"])].get("lusr") == l.usr:
                return par, v["name"]
    return par, None


def _simple_arg(g, a, depth=0):
    """side-effect free and cheap to duplicate"""
    n = g.nodes[g.strip(a)]
    k = n["k"]
    if k in ("ref", "this", "lit"):
        return True
    if depth > 3:
        return False
    if k == "member":
        return _simple_arg(g, n["base"], depth + 1)
    if k == "un" and n.get("op") in ("*", "&"):
        return _simple_arg(g, n["sub"], depth + 1)
    if k == "call" and n.get("op") in ("*", "->") and "recv" in n and not n.get("args"):
        return _simple_arg(g, n["recv"], depth + 1)
    if k == "call" and n.get("cname") in ("get", "move", "ref", "cref", "value", "c_str", "data", "size", "fd") and len(n.get("args", [])) + (1 if "recv" in n else 0) == 1:
        return _simple_arg(g, n["recv"] if "recv" in n else n["args"][0], depth + 1)
    return False


def _remap_node(m, off, try_off, outer_try):
    m["id"] = m.get("id", 0) + off
    for key in _REF_KEYS:
        v = m.get(key)
        if isinstance(v, int) and not isinstance(v, bool) and v >= 0:
            m[key] = v + off
    for key in _LIST_KEYS:
        v = m.get(key)
        if isinstance(v, list):
            m[key] = [(x + off) if isinstance(x, int) and not isinstance(x, bool) and x >= 0 else x for x in v]
    if isinstance(m.get("vars"), list):
        for v in m["vars"]:
            if isinstance(v.get("init"), int) and v["init"] >= 0:
                v["init"] += off
    t = m.get("try")
    if isinstance(t, int):
        m["try"] = (t + try_off) if t >= 0 else outer_try


def _call_sites(prog):
    sites = {}
    for g in prog.fns.values():
        if not g.file.startswith("oomd/"):
            continue
        for i, n in enumerate(g.nodes):
            if n["k"] in ("call", "construct") and n.get("cusr"):
                for u in prog.resolve(n["cusr"]):
                    sites.setdefault(u, []).append((g, i))
            # a function whose address is taken / passed around is not a single-call-site helper
            if n["k"] == "ref" and n.get("dk") == "func" and n.get("usr"):
                sites.setdefault(n["usr"], []).append((g, -1))
    return sites


def _stmt_of(g, c):
    """(shape, statement node) of call node c in g"""
    par = g.parent.get(c)
    # look through implicit wrappers
    cur = c
    while par is not None and g.nodes[par]["k"] in ("cast", "paren", "rewritten") and len(g.kids(par)) == 1:
        cur, par = par, g.parent.get(par)
    if par is None:
        return None, None
    pn = g.nodes[par]
    if pn["k"] == "compound":
        return "stmt", cur
    if pn["k"] == "return" and pn.get("val") is not None and g.strip(pn["val"]) == c:
        return "tail", par
    if pn["k"] == "decl" and len(pn.get("vars", [])) == 1 and pn["vars"][0].get("init") is not None and g.strip(pn["vars"][0]["init"]) == c:
        gp = g.parent.get(par)
        if gp is not None and g.nodes[gp]["k"] == "compound":
            return "init", par
    # the whole (possibly negated) condition of a branch: if (helper(..)) / if (!helper(..)) / a && helper(..)
    pos = g.pos_of(c)
    if pos is not None:
        t = g.blocks[pos[0]].get("term")
        if t and isinstance(t.get("cond"), int) and t["cond"] >= 0 and len(g.blocks[pos[0]].get("succ", [])) == 2 and t.get("cls") in (
                "IfStmt", "BinaryOperator", "WhileStmt", "ForStmt", "ConditionalOperator"):
            x = g.nodes[g.strip(t["cond"])]
            if g.strip(t["cond"]) == c or (x["k"] == "un" and x.get("op") == "!" and g.strip(x["sub"]) == c) or \
                    (x["k"] == "call" and x.get("op") == "!" and "recv" in x and g.strip(x["recv"]) == c):
                return "cond", g.strip(t["cond"])
    if pn["k"] == "bin" and pn.get("op") == "=" and g.strip(pn["r"]) == c and g.nodes[g.strip(pn["l"])]["k"] == "ref" \
            and g.nodes[g.strip(pn["l"])].get("dk") == "local":
        gp = g.parent.get(par)
        if gp is not None and g.nodes[gp]["k"] == "compound":
            return "assign", par
    return None, None


def _fold(prog, g, c, h):
    """Splice h into g at call node c.  Returns a description or None (nothing changed)."""
    shape, stmt = _stmt_of(g, c)
    if shape is None:
        return None
    cn = g.nodes[c]
    args = cn.get("args", [])
    if len(args) != len(h.params) or not all(_simple_arg(g, a) for a in args):
        return None
    if h.kind == "method" and "recv" in cn and g.nodes[g.strip(cn["recv"])]["k"] != "this":
        return None
    if h.kind == "lambda" and h.d.get("parentfn") != g.usr:
        return None
    if h.kind == "method" and g.cls != h.cls and g.kind != "lambda":
        return None
    if not h.cfg or h.entry is None or h.exit is None:
        return None
    pos = g.pos_of(c)
    if pos is None:
        return None
    rets = [i for i, n in enumerate(h.nodes) if n["k"] == "return"]
    init_mode = None
    if shape in ("init", "assign"):
        vals = [h.nodes[r].get("val") for r in rets]
        if any(v is None for v in vals) or not rets:
            return None
        stripped = [h.nodes[h.strip(v)] for v in vals]
        if all(s["k"] == "ref" and s.get("dk") == "local" for s in stripped) and len({s.get("decl") for s in stripped}) == 1:
            init_mode = ("alias", stripped[0].get("decl"))
        elif len(rets) == 1:
            rb = h.pos_of(rets[0])
            if rb is None or h.blocks[rb[0]]["succ"] != [h.exit]:
                return None
            init_mode = ("value", vals[0])
        else:
            return None
    if shape == "cond":
        if not rets or any(h.nodes[r].get("val") is None or h.nodes[r].get("val", -1) < 0 for r in rets):
            return None
        if (h.d.get("ret") or "").replace("const ", "").strip() != "bool":
            return None
        Bc = g.blocks[pos[0]]
        tail = [e.get("n") for e in Bc["elems"][pos[1] + 1:]]
        if any(x is None or (x != stmt) for x in tail):
            return None          # something else is evaluated after the call in that block
    if shape == "stmt" and any(h.nodes[r].get("val") is not None and h.nodes[r].get("val", -1) >= 0 for r in rets):
        # a value is computed and dropped: fine, it is evaluated in place of the return
        pass
    off = len(g.nodes)
    tries_g = g.d.setdefault("tries", [])
    try_off = (max([t["id"] for t in tries_g]) + 1) if tries_g else 0
    outer_try = cn.get("try", -1) if isinstance(cn.get("try"), int) else -1
    # ---- nodes
    new_nodes = []
    for n in h.nodes:
        m = copy.deepcopy(n)
        _remap_node(m, off, try_off, outer_try)
        new_nodes.append(m)
    for t in h.d.get("tries", []):
        t2 = copy.deepcopy(t)
        t2["id"] += try_off
        t2["parent"] = (t2["parent"] + try_off) if isinstance(t2.get("parent"), int) and t2["parent"] >= 0 else outer_try
        for key in ("node", "body"):
            if isinstance(t2.get(key), int) and t2[key] >= 0:
                t2[key] += off
        if isinstance(t2.get("catches"), list):
            t2["catches"] = [x + off for x in t2["catches"]]
        tries_g.append(t2)
    # ---- parameters
    rename, subst = {}, {}
    for p, a in zip(h.params, args):
        an = g.nodes[g.strip(a)]
        if an["k"] == "ref" and an.get("dk") in ("local", "param", "binding"):
            rename[p["decl"]] = an
        else:
            subst[p["decl"]] = g.strip(a)
    v_rec = g.nodes[stmt]["vars"][0] if shape == "init" else None
    if shape == "assign":
        lref = g.nodes[g.strip(g.nodes[stmt]["l"])]
        v_rec = {"name": lref["name"], "decl": lref["decl"]}

    def fix_refs(nodes, in_lambda=False):
        for m in nodes:
            if m["k"] != "ref":
                continue
            d = m.get("decl")
            if d in rename:
                a = rename[d]
                keep = {"id": m["id"]}
                for key in ("name", "decl", "dk", "pidx", "captured", "type", "tw"):
                    if key in a:
                        m[key] = a[key]
                    elif key in m and key in ("pidx",):
                        del m[key]
                if in_lambda and a.get("dk") in ("local", "param"):
                    m["captured"] = True
                m.update(keep)
            elif d in subst:
                src = copy.deepcopy(g.nodes[subst[d]])
                src["id"] = m["id"]
                m.clear()
                m.update(src)
            elif init_mode and init_mode[0] == "alias" and d == init_mode[1]:
                m["name"], m["decl"] = v_rec["name"], v_rec["decl"]
            if h.kind == "lambda" and not in_lambda and m.get("captured"):
                m.pop("captured", None)        # the closure's captures are the caller's own variables again
    fix_refs(new_nodes)
    extra_nodes = []
    if init_mode and init_mode[0] == "alias":
        for m in new_nodes:
            if m["k"] == "decl":
                for v in m.get("vars", []):
                    if v.get("decl") == init_mode[1]:
                        if shape == "init":
                            v["name"], v["decl"] = v_rec["name"], v_rec["decl"]
                        elif len(m.get("vars", [])) == 1:
                            # the caller's variable exists already: the helper's declaration of its result becomes an assignment to it
                            init = v.get("init")
                            lc = {k_: m[k_] for k_ in ("line", "col") if k_ in m}
                            mid = m["id"]
                            m.clear()
                            if isinstance(init, int) and init >= 0:
                                nid = off + len(new_nodes) + len(extra_nodes)
                                rn_ = copy.deepcopy(g.nodes[g.strip(g.nodes[stmt]["l"])])
                                rn_["id"] = nid
                                extra_nodes.append(rn_)
                                m.update({"id": mid, "k": "bin", "op": "=", "l": nid, "r": init, **lc})
                            else:
                                m.update({"id": mid, "k": "other", "cls": "InlinedResultDecl", "kids": [], **lc})
    g.nodes.extend(new_nodes)
    g.nodes.extend(extra_nodes)
    # the call itself (and, for a tail call, the caller's return) are replaced by the body
    cn_args = list(cn.get("args", []))
    where = g.loc(c)
    lc = {k_: cn[k_] for k_ in ("line", "col") if k_ in cn}
    cn.clear()
    cn.update({"id": c, "k": "other", "cls": "InlinedCall", "kids": cn_args, **lc})
    if shape == "tail":
        rn = g.nodes[stmt]
        lr = {k_: rn[k_] for k_ in ("line", "col") if k_ in rn}
        rn.clear()
        rn.update({"id": stmt, "k": "other", "cls": "InlinedTailReturn", "kids": [c], **lr})
    # lambdas defined inside the helper now belong to the caller
    stack = [l for l in prog.fns.values() if l.d.get("parentfn") == h.usr]
    for l in stack:
        l2d = copy.deepcopy(l.d)
        # the original stays with the helper; the caller gets its own copy under a derived usr
        l2d["usr"] = l.usr + "@in:" + g.usr
        l2d["parentfn"] = g.usr
        from .program import Fn
        l2 = Fn(l2d)
        fix_refs(l2.nodes, in_lambda=True)
        prog.fns[l2.usr] = l2
        for m in new_nodes:
            if m.get("usr") == l.usr:
                m["usr"] = l2.usr
            if m.get("lusr") == l.usr:
                m["lusr"] = l2.usr
    # ---- return nodes
    ret_ids = [r + off for r in rets]
    cond_rets = []
    if shape == "cond":
        g.nodes[c]["rets"] = list(ret_ids)      # lexical rules can ask which exits of the folded body make the condition false
        for r in ret_ids:
            m = g.nodes[r]
            cond_rets.append((r, m.get("val")))
            lm = {k_: m[k_] for k_ in ("line", "col") if k_ in m}
            val = m.get("val")
            m.clear()
            m.update({"id": r, "k": "other", "cls": "InlinedReturn", "kids": [val], **lm})
    if shape in ("stmt", "init", "assign"):
        for r in ret_ids:
            m = g.nodes[r]
            val = m.get("val")
            lm = {k_: m[k_] for k_ in ("line", "col") if k_ in m}
            m.clear()
            m.update({"id": r, "k": "other", "cls": "InlinedReturn", "kids": [val] if (shape == "stmt" and isinstance(val, int) and val >= 0) else [], **lm})
    if init_mode and init_mode[0] == "value":
        if shape == "init":
            v_rec["init"] = init_mode[1] + off
            g.nodes[stmt]["kids"] = [v_rec["init"]]
        else:
            g.nodes[stmt]["r"] = init_mode[1] + off
    if init_mode and init_mode[0] == "alias":
        d = g.nodes[stmt]
        ld = {k_: d[k_] for k_ in ("line", "col") if k_ in d}
        d.clear()
        d.update({"id": stmt, "k": "other", "cls": "InlinedResultDecl", "kids": [], **ld})
    # ---- CFG
    b_id, e_idx = pos
    B = g.blocks[b_id]
    boff = max(b["id"] for b in g.cfg) + 1
    post_id = boff + max(b["id"] for b in h.cfg) + 1
    hexit = h.exit + boff
    hentry = h.entry + boff
    g_exit = g.exit
    new_blocks = []
    for b in h.cfg:
        nb = copy.deepcopy(b)
        nb["id"] = b["id"] + boff
        nb.pop("entry", None)
        nb.pop("exit", None)
        nb["succ"] = [(s + boff) if isinstance(s, int) else s for s in b.get("succ", [])]
        for e in nb.get("elems", []):
            if isinstance(e.get("n"), int) and e["n"] >= 0:
                e["n"] += off
        t = nb.get("term")
        if t:
            for key in ("cond", "stmt"):
                if isinstance(t.get(key), int) and t[key] >= 0:
                    t[key] += off
        if isinstance(nb.get("looptarget"), int) and nb["looptarget"] >= 0:
            nb["looptarget"] += off
        lab = nb.get("label")
        if isinstance(lab, dict) and isinstance(lab.get("n"), int) and lab["n"] >= 0:
            lab["n"] += off
        new_blocks.append(nb)
    elems = B["elems"]
    if shape == "cond":
        xn = g.nodes[stmt]
        neg = stmt != c
        s_true, s_false = B["succ"][0], B["succ"][1]
        if neg:
            s_true, s_false = s_false, s_true
        term0 = dict(B.get("term") or {})
        by_id = {nb["id"]: nb for nb in new_blocks}
        for r, val in cond_rets:
            rb = None
            for nb in new_blocks:
                if any(e.get("n") == r for e in nb.get("elems", [])):
                    rb = nb
            if rb is None:
                raise ValueError("return not in CFG")
            vn = g.nodes[g.strip(val)]
            if vn["k"] == "lit" and vn.get("lk") == "bool":
                rb["succ"] = [s_true if vn.get("v") == "true" else s_false]
                rb.pop("term", None)
            else:
                rb["term"] = {"cls": "IfStmt", "cond": val, "stmt": term0.get("stmt", -1), "line": term0.get("line", 0)}
                rb["succ"] = [s_true, s_false]
        B["elems"] = elems[:e_idx]
        B.pop("term", None)
        B["succ"] = [hentry]
        g.cfg.extend(new_blocks)
        g.blocks = {b["id"]: b for b in g.cfg}
        body = (h.body + off) if isinstance(h.body, int) and h.body >= 0 else None
        g._parent = None
        # the helper's body stands before the statement that holds the condition
        anc = None
        for a_ in g.ancestors(stmt):
            pa = g.parent.get(a_)
            if pa is not None and g.nodes[pa]["k"] == "compound":
                anc = (pa, a_)
                break
        if body is not None and anc is not None:
            pk = g.nodes[anc[0]].get("kids", [])
            if anc[1] in pk:
                pk.insert(pk.index(anc[1]), body)
        g._parent = None
        g._pos = None
        g._dup = None
        g.d.setdefault("inlined", []).append(h.pq)
        return "%s folded into %s (condition at %s)" % (h.pq, g.pq, where)
    if shape == "tail":
        # everything after the call in this block is the return itself (and scope-exit destructors, which stay with the exit path)
        r_idx = next((k for k in range(e_idx + 1, len(elems)) if elems[k].get("n") == stmt), None)
        if r_idx is None:
            del g.nodes[off:]
            return None
        tail_elems = elems[r_idx + 1:]
        post = {"id": post_id, "elems": tail_elems, "succ": list(B["succ"])}
        if B.get("term"):
            post["term"] = B["term"]
        B["elems"] = elems[:e_idx]
        # the helper's returns are the caller's returns: they continue with what followed the caller's return (destructors), then the exit
    else:
        post = {"id": post_id, "elems": elems[e_idx + 1:], "succ": list(B["succ"])}
        if B.get("term"):
            post["term"] = B["term"]
        B["elems"] = elems[:e_idx]
    B.pop("term", None)
    B["succ"] = [hentry]
    if B.get("noreturn"):
        post["noreturn"] = B.pop("noreturn")
    for nb in new_blocks:
        if nb["id"] == hexit:
            nb["succ"] = [post_id]
    # loops whose back edge pointed at B keep pointing at B (it still is the head of what follows)
    g.cfg.extend(new_blocks)
    g.cfg.append(post)
    g.blocks = {b["id"]: b for b in g.cfg}
    # ---- statement tree: the helper's body stands where the statement stood
    body = (h.body + off) if isinstance(h.body, int) and h.body >= 0 else None
    g._parent = None
    if body is not None:
        par = g.parent.get(stmt)
        g._parent = None
        if par is None:
            pass
        elif shape in ("init", "assign") and init_mode[0] == "value":
            # body first, the declaration (now initialised with the returned expression) after it
            pk = g.nodes[par].get("kids", [])
            if stmt in pk:
                pk.insert(pk.index(stmt), body)
        else:
            pn = g.nodes[par]
            done = False
            for key in _LIST_KEYS:
                if isinstance(pn.get(key), list) and stmt in pn[key]:
                    pn[key][pn[key].index(stmt)] = body
                    done = True
                    break
            if not done:
                for key in _NODE_KEYS:
                    if pn.get(key) == stmt:
                        pn[key] = body
    g._parent = None
    g._pos = None
    g._dup = None
    g.d.setdefault("inlined", []).append(h.pq)
    return "%s folded into %s (%s call at %s)" % (h.pq, g.pq, shape, where)


def fold_new_helpers(prog, rounds=3):
    """Applies the folds; returns their descriptions."""
    kk = known_functions()
    if kk is None:
        return []
    known, known_closures = kk
    done = []
    for _ in range(rounds):
        sites = _call_sites(prog)
        changed = False
        for h in list(prog.fns.values()):
            if not h.file.startswith("oomd/") or h.d.get("inlined_into") or "@in:" in h.usr:
                continue
            if h.kind == "lambda":
                # a NEW local closure that is only ever called, once, by its name
                par, holder = closure_holder(prog, h)
                if par is None or holder is None or ("%s|%s" % (par.pq, holder)) in known_closures:
                    continue
                uses = [i for i, n in enumerate(par.nodes) if n["k"] == "ref" and n.get("name") == holder]
                calls = [i for i in par.calls() if par.nodes[i].get("op") == "()" and "recv" in par.nodes[i] and par.strip(par.nodes[i]["recv"]) in uses]
                if len(uses) != 1 or len(calls) != 1:
                    continue
                ss = [(par, calls[0])]
            else:
                if h.kind not in ("function", "method") or h.d.get("parentfn"):
                    continue
                if plain(h.d["qname"]) in known or h.d.get("virtual") or h.name.startswith("operator"):
                    continue
                ss = sites.get(h.usr, [])
                # one call site - or the same call site in several instantiations of one template - or a SMALL helper with a few call
                # sites (a block that two functions shared was given a name): every call site receives its own copy of the body
                if not ss or any(x[1] < 0 for x in ss):
                    continue
                if len({(x[0].pq, x[0].line, x[1]) for x in ss}) != 1 and (len(ss) > 4 or len(h.nodes) > 120 or h.kind != "function" and h.kind != "method"):
                    continue
            if any(g_ is h or g_.usr == h.usr for g_, _ in ss):
                continue
            involved = []
            for g_, _ in ss:
                if all(g_ is not x for x in involved):
                    involved.append(g_)
            snaps_ = [(g_, copy.deepcopy(g_.nodes), copy.deepcopy(g_.cfg), copy.deepcopy(g_.d.get("tries", [])), list(g_.d.get("inlined", []))) for g_ in involved]
            fns_before = set(prog.fns)
            descs = []
            try:
                for g, c in ss:
                    r = _fold(prog, g, c, h)
                    if not r:
                        raise ValueError("shape")
                    descs.append(r)
            except Exception as ex:      # never let the normalisation take the analysis down: the helper simply stays a call
                for g_, n_, c_, t_, inl_ in snaps_:
                    g_.nodes[:] = n_
                    g_.cfg[:] = c_
                    g_.d["tries"] = t_
                    g_.d["inlined"] = inl_
                    g_.blocks = {b["id"]: b for b in g_.cfg}
                    g_._parent = g_._pos = g_._dup = None
                for u in set(prog.fns) - fns_before:
                    del prog.fns[u]
                if not (isinstance(ex, ValueError) and str(ex) == "shape"):
                    done.append("(fold of %s abandoned: %s %s)" % (h.pq, type(ex).__name__, ex))
                continue
            h.d["inlined_into"] = ss[0][0].usr
            done.extend(descs)
            changed = True
            # the helper now lives in its callers; its own definition (and the closures defined in it, of which the callers
            # received copies) would only be seen twice by rules that scan every function
            if h.kind != "lambda":
                for l in [x for x in prog.fns.values() if x.d.get("parentfn") == h.usr]:
                    prog.fns.pop(l.usr, None)
            prog.fns.pop(h.usr, None)
        if not changed:
            break
    return done
