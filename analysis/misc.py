"""E-MISC: small repository-specific structural rules."""
from .cfg import Flow, loops
from .callgraph import node_writes

_INVALIDATING = {"erase", "clear", "insert", "emplace", "emplace_back", "push_back", "emplace_front",
                 "push_front", "try_emplace", "insert_or_assign", "pop_back", "pop_front", "resize",
                 "reserve", "rehash", "extract", "merge", "assign", "swap"}
# node-based containers: insertion does not invalidate other iterators
_NODE_BASED = ("std::map<", "std::set<", "std::list<", "std::multimap<", "std::multiset<")
_HASHED = ("std::unordered_map<", "std::unordered_set<")


def erase_in_iteration(prog, fn, cg=None):
    """Container modified while it is being iterated, with the loop iterator used
    afterwards.  Returns [(node id, message)].

    range-for over C: any invalidating call on C inside the body is a finding
    unless every path from it leaves the loop (break/return) before the next
    increment.  Iterator loop `for (it = C.begin(); it != C.end(); ++it)`:
    `C.erase(it)` must hand its result back to `it` (it = C.erase(it)) and the
    increment must not be reachable afterwards in the same iteration."""
    out = []
    for L in loops(fn):
        s = L["stmt"]
        if s is None:
            continue
        n = fn.nodes[s]
        cont = None
        itdecl = None
        if n["k"] == "rangefor":
            cont = fn.text(n["range"])
        elif n["k"] == "for" and "init" in n:
            ini = fn.nodes[n["init"]]
            if ini["k"] == "decl":
                for v in ini.get("vars", []):
                    if "init" in v:
                        c = fn.nodes[fn.strip(v["init"])]
                        if c["k"] == "call" and c.get("cname") in ("begin", "cbegin", "rbegin") and "recv" in c:
                            cont = fn.text(c["recv"])
                            itdecl = v["decl"]
        if not cont:
            continue
        body_blocks = L["body"]
        muts = []
        for b in body_blocks:
            for e in fn.blocks[b]["elems"]:
                i = e.get("n", -1)
                if "dtor" in e or i is None or i < 0:
                    continue
                m = fn.nodes[i]
                if m["k"] != "call" or "recv" not in m:
                    continue
                if fn.text(m["recv"]) != cont:
                    continue
                nm = m.get("cname", "")
                rt = m.get("rtype", "")
                if nm == "operator[]" and rt.startswith(("std::map<", "std::unordered_map<")):
                    nm = "operator[] (may insert)"
                    if rt.startswith("std::map<"):
                        continue      # node based: insertion keeps iterators valid
                elif nm not in _INVALIDATING:
                    continue
                if nm in ("insert", "emplace", "try_emplace", "insert_or_assign") and rt.startswith(_NODE_BASED):
                    continue
                muts.append((i, nm))
        if not muts:
            continue
        # where does the loop advance?  the back-edge source blocks / the inc expression
        inc = n.get("inc", -1)
        ev = {}
        for i, nm in muts:
            ev.setdefault(i, []).append(("set", "mutated"))
        # an assignment to the loop iterator from the call's result re-validates it
        if itdecl is not None:
            for i, m in enumerate(fn.nodes):
                if m["k"] == "bin" and m["op"] == "=" or (m["k"] == "call" and m.get("op") == "=" and "recv" in m):
                    tgt = m["l"] if m["k"] == "bin" else m["recv"]
                    if fn.var_token(tgt) == "L:" + itdecl and fn.pos_of(i) is not None:
                        ev.setdefault(i, []).append(("clear", "mutated"))
        fl = Flow(prog, fn, events=ev, start=L["head"], cut=set(L["back_edges"]), cg=cg)
        bad = False
        for src, _ in L["back_edges"]:
            parts = fl.OUT.get(src)
            if parts and any("mutated" in st.may for st in parts.values()):
                bad = True
        if inc is not None and inc >= 0 and fn.pos_of(inc) is not None:
            if fl.may(inc, "mutated"):
                bad = True
        if bad:
            i, nm = muts[0]
            out.append((i, "%s.%s inside the loop that iterates %s: the loop iterator is advanced "
                           "after being invalidated" % (cont, nm, cont)))
    return out
