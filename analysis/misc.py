"""E-MISC: small repository-specific structural rules."""
import re
from .cfg import Flow, loops
from .callgraph import node_writes

_INVALIDATING = {"erase", "clear", "insert", "emplace", "emplace_back", "push_back", "emplace_front",
                 "push_front", "try_emplace", "insert_or_assign", "pop_back", "pop_front", "resize",
                 "reserve", "rehash", "extract", "merge", "assign", "swap"}
# node-based containers: insertion does not invalidate other iterators
_NODE_BASED = ("std::map<", "std::set<", "std::list<", "std::multimap<", "std::multiset<")
_HASHED = ("std::unordered_map<", "std::unordered_set<")


def erase_in_iteration(prog, fn, cg=None):
    """Container modified while it is being iterated, with the loop iterator used
    afterwards.  Returns [(node id, message)].

    range-for over C: any invalidating call on C inside the body is a finding
    unless every path from it leaves the loop (break/return) before the next
    increment.  Iterator loop `for (it = C.begin(); it != C.end(); ++it)`:
    `C.erase(it)` must hand its result back to `it` (it = C.erase(it)) and the
    increment must not be reachable afterwards in the same iteration."""
    out = []
    for L in loops(fn):
        s = L["stmt"]
        if s is None:
            continue
        n = fn.nodes[s]
        cont = None
        itdecl = None
        if n["k"] == "rangefor":
            cont = fn.text(n["range"])
        elif n["k"] == "for" and "init" in n:
            ini = fn.nodes[n["init"]]
            if ini["k"] == "decl":
                for v in ini.get("vars", []):
                    if "init" in v:
                        c = fn.nodes[fn.strip(v["init"])]
                        if c["k"] == "call" and c.get("cname") in ("begin", "cbegin", "rbegin") and "recv" in c:
                            cont = fn.text(c["recv"])
                            itdecl = v["decl"]
        if not cont:
            continue
        body_blocks = L["body"]
        muts = []
        for b in body_blocks:
            for e in fn.blocks[b]["elems"]:
                i = e.get("n", -1)
                if "dtor" in e or i is None or i < 0:
                    continue
                m = fn.nodes[i]
                if m["k"] != "call" or "recv" not in m:
                    continue
                if fn.text(m["recv"]) != cont:
                    continue
                nm = m.get("cname", "")
                rt = m.get("rtype", "")
                if nm == "operator[]" and rt.startswith(("std::map<", "std::unordered_map<")):
                    nm = "operator[] (may insert)"
                    if rt.startswith("std::map<"):
                        continue      # node based: insertion keeps iterators valid
                elif nm not in _INVALIDATING:
                    continue
                if nm in ("insert", "emplace", "try_emplace", "insert_or_assign") and rt.startswith(_NODE_BASED):
                    continue
                muts.append((i, nm))
        if not muts:
            continue
        # where does the loop advance?  the back-edge source blocks / the inc expression
        inc = n.get("inc", -1)
        ev = {}
        for i, nm in muts:
            ev.setdefault(i, []).append(("set", "mutated"))
        # an assignment to the loop iterator from the call's result re-validates it
        if itdecl is not None:
            for i, m in enumerate(fn.nodes):
                if m["k"] == "bin" and m["op"] == "=" or (m["k"] == "call" and m.get("op") == "=" and "recv" in m):
                    tgt = m["l"] if m["k"] == "bin" else m["recv"]
                    if fn.var_token(tgt) == "L:" + itdecl and fn.pos_of(i) is not None:
                        ev.setdefault(i, []).append(("clear", "mutated"))
        fl = Flow(prog, fn, events=ev, start=L["head"], cut=set(L["back_edges"]), cg=cg)
        bad = False
        for src, _ in L["back_edges"]:
            parts = fl.OUT.get(src)
            if parts and any("mutated" in st.may for st in parts.values()):
                bad = True
        if inc is not None and inc >= 0 and fn.pos_of(inc) is not None:
            if fl.may(inc, "mutated"):
                bad = True
        if bad:
            i, nm = muts[0]
            out.append((i, "%s.%s inside the loop that iterates %s: the loop iterator is advanced "
                           "after being invalidated" % (cont, nm, cont)))
    return out


# ---------------------------------------------------------------------------------------------------
# exactness of floating arithmetic that feeds a discretising function (ceil/floor/round)
#   INT     the double holds an exactly computed integer (integer-typed leaf, integral literal, and
#           +,-,* of such: exact below 2^53)
#   QUOT    one correctly rounded quotient of two INT values: rounding cannot cross an integer, so
#           ceil/floor of it equal ceil/floor of the real quotient
#   INEXACT anything else (a rounded quotient that is multiplied/added afterwards, floating inputs, ...)
def exactness(f, node, depth=0):
    i = node
    n = f.nodes[i]
    k = n["k"]
    if k in ("cast", "paren"):
        if k == "cast" and n.get("ck") == "FloatingToIntegral":
            return "INT" if exactness(f, n["sub"], depth) in ("INT",) else "INT-TRUNC"
        return exactness(f, n["sub"], depth)
    tw = n.get("tw", "")
    if k == "lit":
        if n.get("lk") == "int":
            return "INT"
        try:
            return "INT" if float(n.get("v", "x")) == int(float(n.get("v", "x"))) else "INEXACT"
        except ValueError:
            return "INEXACT"
    if k == "bin" and n.get("op") in ("+", "-", "*", "/", "<<", "%"):
        a, b = exactness(f, n["l"], depth), exactness(f, n["r"], depth)
        if n["op"] in ("+", "-", "*", "<<"):
            if a == "INT" and b == "INT":
                return "INT"
            # integer arithmetic: floor(x/y) +- k is still exact integer arithmetic on the floored quotient; only scaling a
            # truncated quotient (x/y*z) loses the remainder
            if tw[:1] in ("i", "u") and n["op"] in ("+", "-") and {a, b} == {"QUOT", "INT"}:
                return "QUOT"
            return "INEXACT"
        if n["op"] == "/":
            # integer division truncates: the quotient is exact only as the LAST step (floor of the real quotient)
            return "QUOT" if a == "INT" and b == "INT" else "INEXACT"
        if n["op"] == "%":
            return "INT" if a == "INT" and b == "INT" else "INEXACT"
    if tw[:1] in ("i", "u") or tw == "b":
        if k == "ref" and n.get("dk") == "local" and depth < 6:
            # an integer local initialised once from an inexact value keeps that inexactness
            from .rules.common import local_init, local_writes
            try:
                init, v = local_init(f, n["name"], must=False)
                if v is not None and init is not None and init >= 0 and not local_writes(f, n["name"], must=False):
                    e = exactness(f, init, depth + 1)
                    return e if e in ("QUOT", "INEXACT") else "INT"
            except Exception:
                pass
        return "INT"
    if k == "bin":
        return "INEXACT"
    if k == "un" and n.get("op") in ("-", "+"):
        return exactness(f, n["sub"], depth)
    if k == "ref" and n.get("dk") in ("local",) and depth < 6:
        # single-definition floating local: look through it
        from .rules.common import local_init, local_writes
        try:
            init, v = local_init(f, n["name"])
        except Exception:
            return "INEXACT"
        if v is not None and init is not None and len(local_writes(f, n["name"])) == 0:
            return exactness(f, init, depth + 1)
    if k == "cond":
        a, b = exactness(f, n["t"], depth), exactness(f, n["f"], depth)
        return a if a == b else ("QUOT" if {a, b} <= {"INT", "QUOT"} else "INEXACT")
    return "INEXACT"


# ---------------------------------------------------------------------------------------------------
# loop progress: a loop whose condition depends only on local variables (iterators, counters, local
# containers) must change one of them on every path from the head back to the head
PURE_COND_CALLS = {"end", "cend", "rend", "crend", "begin", "cbegin", "size", "length", "empty", "has_value", "operator bool",
                   "operator!=", "operator==", "operator<", "operator>", "operator<=", "operator>=", "operator!", "operator*", "operator->",
                   "get", "value", "at", "operator[]", "count", "contains", "find", "c_str", "data", "front", "back"}


def loop_progress(prog, cg, f):
    """[(loop, control tokens, [(back-edge source block, facts)])] for local-variable-controlled loops of f that
    have an iteration path without a write to any control variable.  Loops waiting for something external (a call with
    effects in the condition, a condition declaration, fields/globals in the condition) are not judged."""
    from .cfg import Flow, loops
    from .callgraph import node_writes
    out, examined = [], 0
    for L in loops(f):
        s = L["stmt"]
        if s is None:
            continue
        n = f.nodes[s]
        if n["k"] == "rangefor" or "c" not in n or n["c"] is None or n["c"] < 0:
            continue
        cond = n["c"]
        if n.get("condvar") or any(f.nodes[x]["k"] == "decl" for x in f.walk(cond)):
            continue
        ctl, external = set(), False
        for x in f.walk(cond):
            m = f.nodes[x]
            if m["k"] == "call":
                nm = m.get("cname") or m.get("callee", "")
                if nm not in PURE_COND_CALLS and not (m.get("op") in ("!=", "==", "<", ">", "<=", ">=", "!", "*", "->", "[]")):
                    external = True
            if m["k"] in ("ref", "member"):
                t = f.var_token(x)
                if t:
                    if not t.startswith("L:") or m.get("dk") == "param":
                        external = True
                    ctl.add(t)
        if external or not ctl:
            continue
        # a condition declaration (while (T* x = next())) renews the control variable through a call: externally controlled
        sl = n.get("line")
        if n["k"] == "while" and any(t.startswith("L:") and ("@%s:" % sl) in t for t in ctl):
            continue
        # loop-carried state: locals declared outside the loop that some branch condition inside the loop reads
        declared_inside = set()
        for d in f.all("decl"):
            pos = f.pos_of(d)
            if pos is not None and pos[0] in L["body"] and pos[0] != L["head"]:
                for v in f.nodes[d].get("vars", []):
                    declared_inside.add("L:" + v.get("decl", ""))
        for b in L["body"]:
            t = f.blocks[b].get("term") or {}
            c = t.get("cond")
            if c is None or c < 0:
                continue
            for x in f.walk(c):
                m = f.nodes[x]
                if m["k"] == "ref" and m.get("dk") == "local":
                    tok = f.var_token(x)
                    if tok and tok not in declared_inside:
                        ctl.add(tok)
        examined += 1
        ev = {}
        for i in range(len(f.nodes)):
            pos = f.pos_of(i)
            if pos is None or pos[0] not in L["body"]:
                continue
            if set(node_writes(f, i)) & ctl:
                ev.setdefault(i, []).append(("set", "progress"))
        # a control variable declared inside the loop (condition declaration) is renewed on every iteration
        for d in f.all("decl"):
            pos = f.pos_of(d)
            if pos is not None and pos[0] in L["body"] and any(("L:" + v.get("decl", "")) in ctl for v in f.nodes[d].get("vars", [])):
                ev.setdefault(d, []).append(("set", "progress"))
        fl = Flow(prog, f, events=ev, start=L["head"], cut=set(L["back_edges"]), cg=cg)
        # empty latch blocks merge the 'continue' paths: judge their predecessors instead
        pred = {}
        for b in f.cfg:
            for t in b["succ"]:
                if isinstance(t, int):
                    pred.setdefault(t, []).append(b["id"])
        cands, seen, work = [], set(), [b for b, _ in L["back_edges"]]
        while work:
            b = work.pop()
            if b in seen or b not in L["body"]:
                continue
            seen.add(b)
            if not f.blocks[b].get("elems") and b != L["head"]:
                work.extend(pred.get(b, []))
            else:
                cands.append(b)
        bad = []
        for b in cands:
            parts = fl.OUT.get(b)
            if parts is None:
                continue
            for st in parts.values():
                if "progress" not in st.must:
                    t = f.blocks[b].get("term") or {}
                    bad.append((b, t.get("line"), sorted(st.conds, key=str)))
        if bad:
            out.append((L, sorted(ctl), bad))
    return out, examined


# ---------------------------------------------------------------------------------------------------
# out-parameter of a failing system call: struct filled by stat-family calls may be read only on the success edge
STAT_FAMILY = {"stat", "fstat", "lstat", "fstatat", "stat64", "fstat64", "lstat64", "fstatat64", "statfs", "fstatfs", "statvfs", "fstatvfs"}


def stat_buffer_reads(prog, cg, f):
    """[(call node, buffer name, [(read node, guards)])] : reads of a stat buffer that are not dominated by the call's success."""
    import re
    from .cfg import Flow
    out, n_calls = [], 0
    fl = None
    for i in f.calls():
        n = f.nodes[i]
        if (n.get("cname") or "") not in STAT_FAMILY or f.pos_of(i) is None:
            continue
        buf = None
        for a in n.get("args", []):
            m = f.nodes[f.strip(a)]
            if m["k"] == "un" and m.get("op") == "&":
                r = f.nodes[f.strip(m["sub"])]
                if r["k"] == "ref" and r.get("dk") == "local":
                    buf = r
        if buf is None:
            continue
        n_calls += 1
        if fl is None:
            fl = Flow(prog, f, cg=cg)
        # how the result is held: a local initialised/assigned from the call, or the call tested directly
        res = None
        par = f.parent.get(i)
        for d in f.all("decl"):
            for v in f.nodes[d].get("vars", []):
                if "init" in v and v["init"] is not None and v["init"] >= 0 and f.strip(v["init"]) == i:
                    res = v["name"]
        call_txt = f.text(i)
        bad = []
        for x, m in enumerate(f.nodes):
            if m["k"] != "member" or f.pos_of(x) is None:
                continue
            b = f.nodes[f.strip(m["base"])] if "base" in m and m["base"] is not None and m["base"] >= 0 else {}
            if b.get("k") != "ref" or b.get("decl") != buf.get("decl"):
                continue
            g = fl.guards(x)
            ok = False
            for k, p in g:
                subj = res if res else None
                if subj and ((k in ("(-1 == %s)" % subj, "(%s == -1)" % subj, "(%s < 0)" % subj, "(0 != %s)" % subj, "(%s != 0)" % subj, subj) and p is False) or
                             (k in ("(0 == %s)" % subj, "(%s == 0)" % subj) and p is True)):
                    ok = True
                if call_txt in k and ((re.match(r"^\(0 == ", k) and p is True) or (re.match(r"^\((-1 == |.* < 0\)$)", k) and p is False) or (k == call_txt and p is False) or
                                      (k == "!" + call_txt and p is True)):
                    ok = True
            if not ok:
                bad.append((x, sorted(g, key=str)))
        if bad:
            out.append((i, buf["name"], bad))
    return out, n_calls


# ---------------------------------------------------------------------------------------------------
# product of two 64-bit quantities in integer arithmetic (byte count x byte count overflows int64 from ~3 GiB x 3 GiB)
def wide_products(f):
    """[node] : integer multiplications whose two operands are both genuinely 64-bit (not literals, not values promoted from a
    narrower type)."""
    def wide(i):
        n = f.nodes[i]
        while n["k"] in ("cast", "paren"):
            if n["k"] == "cast" and n.get("ck") == "IntegralCast" and n.get("fromtw", "") in ("i32", "u32", "i16", "u16", "i8", "u8", "b"):
                return False
            n = f.nodes[n["sub"]]
        if n["k"] == "lit":
            return False
        return n.get("tw") in ("i64", "u64")
    out = []
    for i, n in enumerate(f.nodes):
        if n["k"] == "bin" and n.get("op") in ("*", "*=") and n.get("tw") in ("i64", "u64") and f.pos_of(i) is not None:
            if wide(n["l"]) and wide(n["r"]):
                out.append(i)
    return out


def double_advance(prog, cg, f):
    """Loops that walk a container with an iterator local (`it != C.end()` in the condition): [(node, message)] for every place where
    the iterator can be advanced a second time within one iteration - `it = C.erase(it)` (which already yields the next element)
    followed by the loop's own `++it`, or two increments.  The element in between is skipped: it is neither examined nor refreshed."""
    from .cfg import Flow, loops
    from .rules.common import iter_flow_raw
    out = []
    for l in loops(f):
        if l.get("stmt") is None:
            continue
        sn = f.nodes[l["stmt"]]
        if sn["k"] not in ("for", "while", "do") or sn.get("c") is None or sn.get("c", -1) < 0:
            continue
        m = re.match(r"^\((\w+)(@\d+)? != .*(\.|->)c?end\(\)\)$", f.text(sn["c"]))
        if not m:
            continue
        it = m.group(1) + (m.group(2) or "")
        adv = []
        for i, n in enumerate(f.nodes):
            if f.pos_of(i) is None or l["stmt"] not in set(f.ancestors(i)):
                continue
            if n["k"] in ("un", "call") and n.get("op") == "++" and f.text(n.get("sub", n.get("recv", -1))) == it:
                adv.append(i)
            elif n["k"] in ("bin", "call") and n.get("op") == "=" and f.text(n.get("l", n.get("recv", -1))) == it:
                adv.append(i)
        if len(adv) < 2:
            continue
        fi = iter_flow_raw(prog, cg, f, l, {a: [("set", "advanced")] for a in adv})
        for a in adv:
            if fi.may(a, "advanced"):
                out.append((a, "the iterator '%s' can be advanced twice in one iteration (%s after an earlier advance): the element in between is skipped" % (it, f.text(a)[:50])))
    return out
