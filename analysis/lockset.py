"""E-LOCK: held-lock sets, guarded-by discipline, lock order, thread reachability.

Locks are the RAII guards std::lock_guard / std::unique_lock / std::scoped_lock
constructed on a mutex *member*; a mutex is identified by the qualified name of
that member (Oomd::Stats::stats_mutex_).  Inside a function the set of locks
held at a program point is a must-analysis over the CFG (construct = acquire,
the guard variable's destructor element or an explicit unlock() = release,
lock() on a unique_lock = re-acquire).  At function entry the held set is the
intersection over all library call sites (fixpoint); functions without library
callers, thread entries and externally callable API start with nothing held.
"""
from .cfg import Flow
from .program import plain

GUARD_TYPES = ("std::lock_guard<", "std::unique_lock<", "std::scoped_lock<", "const std::lock_guard<")


def _mutex_of(f, node):
    """Qualified field name of the mutex expression, or text as fallback."""
    i = f.strip(node)
    n = f.nodes[i]
    if n["k"] == "member" and n.get("dk") == "field":
        return n["qname"]
    if n["k"] == "un" and n["op"] in ("*", "&"):
        return _mutex_of(f, n["sub"])
    return "expr:" + f.text(i)


class LockAnalysis:
    def __init__(self, prog, cg):
        self.prog, self.cg = prog, cg
        self._flow = {}
        self._guards = {}
        self._entry = None
        self._acq = None

    # ------------------------------------------------------------ per function
    def guard_vars(self, f):
        """decl id -> mutex id for RAII guard locals of f."""
        if f.usr in self._guards:
            return self._guards[f.usr]
        res = {}
        for d in f.all("decl"):
            for v in f.nodes[d].get("vars", []):
                t = v.get("type", "")
                if not t.startswith(GUARD_TYPES) or "init" not in v:
                    continue
                c = f.nodes[f.strip(v["init"])]
                args = c.get("args", []) if c["k"] in ("construct", "call") else []
                if not args and c["k"] == "initlist":
                    args = c.get("kids", [])
                if args:
                    res[v["decl"]] = (d, _mutex_of(f, args[0]), len(args) > 1 and "defer_lock" in f.text(args[1]))
        self._guards[f.usr] = res
        return res

    def flow(self, f):
        if f.usr in self._flow:
            return self._flow[f.usr]
        gv = self.guard_vars(f)
        ev = {}
        for decl, (dnode, m, deferred) in gv.items():
            if not deferred:
                ev.setdefault(dnode, []).append(("set", "lock:" + m))
        for b in f.cfg:
            for idx, e in enumerate(b["elems"]):
                if e.get("dtor") == "auto" and e.get("decl") in gv:
                    ev.setdefault((b["id"], idx), []).append(("clear", "lock:" + gv[e["decl"]][1]))
        for i, n in enumerate(f.nodes):
            if n["k"] == "call" and "recv" in n and n.get("cname") in ("lock", "unlock", "try_lock"):
                r = f.nodes[f.strip(n["recv"])]
                if r["k"] == "ref" and r.get("decl") in gv and f.pos_of(i) is not None:
                    op = "set" if n["cname"] == "lock" else "clear" if n["cname"] == "unlock" else None
                    if op:
                        ev.setdefault(i, []).append((op, "lock:" + gv[r["decl"]][1]))
        fl = Flow(self.prog, f, events=ev, cg=self.cg)
        self._flow[f.usr] = fl
        return fl

    def held_local(self, f, node):
        fl = self.flow(f)
        pos = node if isinstance(node, tuple) else f.pos_of(node)
        if pos is None:
            return frozenset()
        parts = fl.at_pos(pos) if isinstance(node, tuple) else fl.at(node)
        if not parts:
            return frozenset()
        it = iter(parts.values())
        h = set(x for x in next(it).must if x.startswith("lock:"))
        for st in it:
            h &= set(x for x in st.must if x.startswith("lock:"))
        return frozenset(x[5:] for x in h)

    # ------------------------------------------------------------ entry-held (fixpoint)
    def entry_held(self, roots=()):
        """usr -> frozenset of mutex ids held at entry on every library call path."""
        if self._entry is not None:
            return self._entry
        P, cg = self.prog, self.cg
        TOP = None
        entry = {}
        root_set = set(roots) | {t for t, _, _ in cg.thread_roots}
        for u, f in P.fns.items():
            callers = [e for e in cg.inn.get(u, []) if e.src != u]
            if u in root_set or not callers or f.kind in ("globalinit",):
                entry[u] = frozenset()
            else:
                entry[u] = TOP
        changed = True
        rounds = 0
        while changed and rounds < 50:
            changed = False
            rounds += 1
            for u, f in P.fns.items():
                if u in root_set:
                    continue
                callers = [e for e in cg.inn.get(u, []) if e.src != u]
                if not callers:
                    continue
                acc = TOP
                for e in callers:
                    src = P.fns[e.src]
                    if entry[e.src] is TOP:
                        continue
                    if e.kind in ("scope-exit",):
                        h = self.held_local(src, e.node[1:] if isinstance(e.node, tuple) else e.node) | entry[e.src]
                    elif isinstance(e.node, tuple):
                        h = self.held_local(src, e.node[1:]) | entry[e.src]
                    else:
                        h = self.held_local(src, e.node) | entry[e.src]
                    acc = h if acc is TOP else (acc & h)
                if acc is not TOP and acc != entry[u]:
                    # monotone: entry sets can only shrink from TOP
                    if entry[u] is TOP or acc < entry[u] or acc != entry[u]:
                        entry[u] = acc if entry[u] is TOP else (entry[u] & acc)
                        changed = True
        for u in entry:
            if entry[u] is TOP:
                entry[u] = frozenset()
        self._entry = entry
        return entry

    def held(self, f, node, roots=()):
        return self.held_local(f, node) | self.entry_held(roots).get(f.usr, frozenset())

    # ------------------------------------------------------------ acquisitions & order
    def acquires(self):
        """usr -> set of mutex ids the function may acquire (transitively)."""
        if self._acq is not None:
            return self._acq
        P, cg = self.prog, self.cg
        acq = {}
        for u, f in P.fns.items():
            acq[u] = {m for (_, m, _) in self.guard_vars(f).values()}
        changed = True
        while changed:
            changed = False
            for u in P.fns:
                for e in cg.out.get(u, ()):
                    add = acq.get(e.dst, set()) - acq[u]
                    if add:
                        acq[u] |= add
                        changed = True
        self._acq = acq
        return acq

    def order_edges(self, roots=()):
        """{(m1, m2): witness} : m2 acquired while m1 is held."""
        P, cg = self.prog, self.cg
        acq = self.acquires()
        edges = {}
        for u, f in P.fns.items():
            gv = self.guard_vars(f)
            for decl, (dnode, m, deferred) in gv.items():
                for h in self.held(f, dnode, roots):
                    if h != m:
                        edges.setdefault((h, m), "%s acquires %s at %s holding %s" % (f.pq, m.split("::")[-1], f.loc(dnode), h.split("::")[-1]))
            for e in cg.out.get(u, ()):
                if not acq.get(e.dst):
                    continue
                node = e.node[1:] if isinstance(e.node, tuple) else e.node
                for h in self.held(f, node, roots):
                    for m in acq[e.dst]:
                        if h != m:
                            edges.setdefault((h, m), "%s calls %s holding %s (callee may take %s)" % (
                                f.pq, P.fns[e.dst].pq, h.split("::")[-1], m.split("::")[-1]))
        return edges

    @staticmethod
    def cycle(edges):
        g = {}
        for (a, b) in edges:
            g.setdefault(a, set()).add(b)
        color = {}
        stack = []

        def dfs(u):
            color[u] = 1
            stack.append(u)
            for v in g.get(u, ()):
                if color.get(v) == 1:
                    return stack[stack.index(v):] + [v]
                if color.get(v) is None:
                    c = dfs(v)
                    if c:
                        return c
            stack.pop()
            color[u] = 2
            return None
        for u in list(g):
            if color.get(u) is None:
                c = dfs(u)
                if c:
                    return c
        return None

    # ------------------------------------------------------------ field discipline
    def field_accesses(self, field_qname):
        """[(fn, node)] member nodes naming the field."""
        out = []
        for f in self.prog.fns.values():
            for i, n in enumerate(f.nodes):
                if n["k"] == "member" and n.get("qname") == field_qname:
                    out.append((f, i))
        return out
