"""E-LOCK: held-lock sets, guarded-by discipline, lock order, thread reachability.

Locks are the RAII guards std::lock_guard / std::unique_lock / std::scoped_lock
constructed on a mutex *member*; a mutex is identified by the qualified name of
that member (Oomd::Stats::stats_mutex_).  Inside a function the set of locks
held at a program point is a must-analysis over the CFG (construct = acquire,
the guard variable's destructor element or an explicit unlock() = release,
lock() on a unique_lock = re-acquire).  At function entry the held set is the
intersection over all library call sites (fixpoint); functions without library
callers, thread entries and externally callable API start with nothing held.
"""
from .cfg import Flow
from .program import plain

GUARD_TYPES = ("std::lock_guard<", "std::unique_lock<", "std::scoped_lock<", "const std::lock_guard<", "std::shared_lock<", "const std::shared_lock<")
SHARED = "#shared"      # suffix of a mutex id held in shared (reader) mode


def _mutex_of(f, node):
    """Qualified field name of the mutex expression, or text as fallback."""
    i = f.strip(node)
    n = f.nodes[i]
    if n["k"] == "member" and n.get("dk") == "field":
        return n["qname"]
    if n["k"] == "un" and n["op"] in ("*", "&"):
        return _mutex_of(f, n["sub"])
    return "expr:" + f.text(i)


class LockAnalysis:
    def __init__(self, prog, cg, ignore_callers=()):
        self.prog, self.cg = prog, cg
        # call sites inside these functions do not count for entry-held sets (constructors and
        # destructors run before the threads exist / after they were joined)
        self.ignore_callers = set(ignore_callers)
        self._flow = {}
        self._guards = {}
        self._entry = None
        self._acq = None

    # ------------------------------------------------------------ per function
    def guard_vars(self, f):
        """decl id -> mutex id for RAII guard locals of f."""
        if f.usr in self._guards:
            return self._guards[f.usr]
        res = {}
        for d in f.all("decl"):
            for v in f.nodes[d].get("vars", []):
                t = v.get("type", "")
                if not t.startswith(GUARD_TYPES) or "init" not in v:
                    continue
                c = f.nodes[f.strip(v["init"])]
                args = c.get("args", []) if c["k"] in ("construct", "call") else []
                if not args and c["k"] == "initlist":
                    args = c.get("kids", [])
                if args:
                    m = _mutex_of(f, args[0]) + (SHARED if "shared_lock<" in t else "")
                    res[v["decl"]] = (d, m, len(args) > 1 and "defer_lock" in f.text(args[1]))
        self._guards[f.usr] = res
        return res

    def flow(self, f):
        if f.usr in self._flow:
            return self._flow[f.usr]
        gv = self.guard_vars(f)
        ev = {}
        for decl, (dnode, m, deferred) in gv.items():
            if not deferred:
                ev.setdefault(dnode, []).append(("set", "lock:" + m))
        for b in f.cfg:
            for idx, e in enumerate(b["elems"]):
                if e.get("dtor") == "auto" and e.get("decl") in gv:
                    ev.setdefault((b["id"], idx), []).append(("clear", "lock:" + gv[e["decl"]][1]))
        for i, n in enumerate(f.nodes):
            if n["k"] == "call" and "recv" in n and n.get("cname") in ("lock", "unlock", "try_lock"):
                r = f.nodes[f.strip(n["recv"])]
                if r["k"] == "ref" and r.get("decl") in gv and f.pos_of(i) is not None:
                    op = "set" if n["cname"] == "lock" else "clear" if n["cname"] == "unlock" else None
                    if op:
                        ev.setdefault(i, []).append((op, "lock:" + gv[r["decl"]][1]))
        fl = Flow(self.prog, f, events=ev, cg=self.cg)
        self._flow[f.usr] = fl
        return fl

    def held_local(self, f, node):
        fl = self.flow(f)
        pos = node if isinstance(node, tuple) else f.pos_of(node)
        if pos is None:
            return frozenset()
        parts = fl.at_pos(pos) if isinstance(node, tuple) else fl.at(node)
        if not parts:
            return frozenset()
        it = iter(parts.values())
        h = set(x for x in next(it).must if x.startswith("lock:"))
        for st in it:
            h &= set(x for x in st.must if x.startswith("lock:"))
        return frozenset(x[5:] for x in h)

    # ------------------------------------------------------------ entry-held (fixpoint)
    def entry_held(self, roots=()):
        """usr -> frozenset of mutex ids held at entry on every library call path."""
        if self._entry is not None:
            return self._entry
        P, cg = self.prog, self.cg
        TOP = None
        entry = {}
        root_set = set(roots) | {t for t, _, _ in cg.thread_roots}
        for u, f in P.fns.items():
            callers = [e for e in cg.inn.get(u, []) if e.src != u and e.src not in self.ignore_callers]
            if u in root_set or not callers or f.kind in ("globalinit",):
                entry[u] = frozenset()
            else:
                entry[u] = TOP
        changed = True
        rounds = 0
        while changed and rounds < 50:
            changed = False
            rounds += 1
            for u, f in P.fns.items():
                if u in root_set:
                    continue
                callers = [e for e in cg.inn.get(u, []) if e.src != u and e.src not in self.ignore_callers]
                if not callers:
                    continue
                acc = TOP
                for e in callers:
                    src = P.fns[e.src]
                    if entry[e.src] is TOP:
                        continue
                    if e.kind in ("scope-exit",):
                        h = self.held_local(src, e.node[1:] if isinstance(e.node, tuple) else e.node) | entry[e.src]
                    elif isinstance(e.node, tuple):
                        h = self.held_local(src, e.node[1:]) | entry[e.src]
                    else:
                        h = self.held_local(src, e.node) | entry[e.src]
                    acc = h if acc is TOP else (acc & h)
                if acc is not TOP and acc != entry[u]:
                    # monotone: entry sets can only shrink from TOP
                    if entry[u] is TOP or acc < entry[u] or acc != entry[u]:
                        entry[u] = acc if entry[u] is TOP else (entry[u] & acc)
                        changed = True
        for u in entry:
            if entry[u] is TOP:
                entry[u] = frozenset()
        self._entry = entry
        return entry

    def held(self, f, node, roots=()):
        return self.held_local(f, node) | self.entry_held(roots).get(f.usr, frozenset())

    # ------------------------------------------------------------ acquisitions & order
    def acquires(self):
        """usr -> set of mutex ids the function may acquire (transitively)."""
        if self._acq is not None:
            return self._acq
        P, cg = self.prog, self.cg
        acq = {}
        for u, f in P.fns.items():
            acq[u] = {m.replace(SHARED, "") for (_, m, _) in self.guard_vars(f).values()}
        changed = True
        while changed:
            changed = False
            for u in P.fns:
                for e in cg.out.get(u, ()):
                    add = acq.get(e.dst, set()) - acq[u]
                    if add:
                        acq[u] |= add
                        changed = True
        self._acq = acq
        return acq

    def order_edges(self, roots=()):
        """{(m1, m2): witness} : m2 acquired while m1 is held."""
        P, cg = self.prog, self.cg
        acq = self.acquires()
        edges = {}
        for u, f in P.fns.items():
            gv = self.guard_vars(f)
            for decl, (dnode, m, deferred) in gv.items():
                m = m.replace(SHARED, "")
                for h in self.held(f, dnode, roots):
                    h = h.replace(SHARED, "")
                    if h != m:
                        edges.setdefault((h, m), "%s acquires %s at %s holding %s" % (f.pq, m.split("::")[-1], f.loc(dnode), h.split("::")[-1]))
            for e in cg.out.get(u, ()):
                if not acq.get(e.dst):
                    continue
                node = e.node[1:] if isinstance(e.node, tuple) else e.node
                for h in self.held(f, node, roots):
                    h = h.replace(SHARED, "")
                    for m in acq[e.dst]:
                        if h != m:
                            edges.setdefault((h, m), "%s calls %s holding %s (callee may take %s)" % (
                                f.pq, P.fns[e.dst].pq, h.split("::")[-1], m.split("::")[-1]))
        return edges

    @staticmethod
    def cycle(edges):
        g = {}
        for (a, b) in edges:
            g.setdefault(a, set()).add(b)
        color = {}
        stack = []

        def dfs(u):
            color[u] = 1
            stack.append(u)
            for v in g.get(u, ()):
                if color.get(v) == 1:
                    return stack[stack.index(v):] + [v]
                if color.get(v) is None:
                    c = dfs(v)
                    if c:
                        return c
            stack.pop()
            color[u] = 2
            return None
        for u in list(g):
            if color.get(u) is None:
                c = dfs(u)
                if c:
                    return c
        return None

    # ------------------------------------------------------------ field discipline
    def field_accesses(self, field_qname):
        """[(fn, node)] member nodes naming the field."""
        out = []
        for f in self.prog.fns.values():
            for i, n in enumerate(f.nodes):
                if n["k"] == "member" and n.get("qname") == field_qname:
                    out.append((f, i))
        return out


def access_is_write(f, i, fq):
    """Is the member node i (naming field fq) written through (assignment, ++, mutator call, out-param)?"""
    from .callgraph import node_writes
    par = f.parent.get(i)
    if par is not None and ("F:" + fq) in node_writes(f, par):
        return True
    for a in list(f.ancestors(i))[:3]:
        if ("F:" + fq) in node_writes(f, a):
            return True
    return False


def alias_write_nodes(f, fq):
    """Writes to elements of field fq made through a local iterator / reference / pointer that was
    obtained from the field (auto it = fld.find(k); it->second += v).  Returns node ids."""
    aliases = set()
    for d in f.all("decl"):
        for v in f.nodes[d].get("vars", []):
            t = v.get("type", "")
            if "init" not in v or v["init"] is None or v["init"] < 0:
                continue
            if not ("iterator" in t or t.rstrip().endswith(("&", "*")) or "reference" in t):
                continue
            if t.startswith("const ") and t.rstrip().endswith("&") and "iterator" not in t:
                continue
            r = f.root_ref(v["init"])
            rn = f.nodes[f.strip(r)] if r is not None and r >= 0 else {}
            # root_ref follows member bases up to 'this'; look for the field on the way instead
            hit = any(f.nodes[x]["k"] == "member" and f.nodes[x].get("qname") == fq for x in f.walk(v["init"]))
            if hit:
                aliases.add(v["decl"])
    out = []
    if not aliases:
        return out
    for i, n in enumerate(f.nodes):
        tgt = None
        if n["k"] == "bin" and n.get("op") in ("=", "+=", "-=", "*=", "/=", "|=", "&=", "^=", "<<=", ">>=", "%="):
            tgt = n["l"]
        elif n["k"] == "un" and n.get("op") in ("++", "--"):
            tgt = n["sub"]
        elif n["k"] == "call" and n.get("op") in ("=", "+=", "-=", "++", "--") and "recv" in n:
            tgt = n["recv"]
        if tgt is None or f.pos_of(i) is None:
            continue
        ts = f.strip(tgt)
        if f.nodes[ts]["k"] == "ref":
            continue            # re-seating the iterator itself is no write to the container
        r = f.root_ref(tgt)
        if r is None or r < 0:
            continue
        rn = f.nodes[f.strip(r)]
        if rn["k"] == "ref" and rn.get("decl") in aliases:
            out.append(i)
    return out


def effective_locks(held, is_write):
    """Mutexes that protect this access: exclusive holds always, shared holds only for reads."""
    out = set()
    for h in held:
        if h.endswith(SHARED):
            if not is_write:
                out.add(h[:-len(SHARED)])
        else:
            out.add(h)
    return out


def shared_field_audit(prog, cg, la, class_qnames, thread_roots, self_concurrent=(), exclude_ctor_dtor=True):
    """Generic data-race rule for the fields of classes whose objects are used by several threads.

    thread_roots: {label: root usr}.  A function belongs to thread `label` if it is reachable from
    that root; everything reachable from no listed root belongs to 'main'.  A field that is accessed
    from two different threads (or from a self-concurrent one), with at least one write outside
    constructors/destructors, must be atomic, a mutex/condition variable, const, or all its accesses
    must hold one common mutex.  Returns [(field qname, verdict, detail, witness accesses)]."""
    from .callgraph import node_writes
    reach = {lab: cg.reach([u]) for lab, u in thread_roots.items()}
    out = []
    audited = set(class_qnames)
    # functions that only ever run as part of construction/destruction of an audited class
    cd = {f.usr for f in prog.fns.values() if f.kind in ("ctor", "dtor") and f.cls in audited}
    only_cd = set(cd)
    changed = True
    while changed:
        changed = False
        for u, f in prog.fns.items():
            if u in only_cd or u in set(thread_roots.values()):
                continue
            callers = [e.src for e in cg.inn.get(u, []) if e.src != u]
            if callers and all(c in only_cd for c in callers) and f.cls in audited:
                only_cd.add(u)
                changed = True
    for cq in class_qnames:
        c = prog.classes.get(cq)
        if not c:
            out.append((cq, "broken", "class not found", []))
            continue
        for fld in c.get("fields", []):
            t = fld.get("type", "")
            if fld.get("static") and fld.get("const"):
                continue
            if any(x in t for x in ("std::atomic", "mutex", "std::condition_variable", "std::thread")) or t.startswith("const "):
                continue
            if t.rstrip().endswith("&"):
                continue     # a reference member is bound once in the constructor; what it refers to is another object (not audited here)
            if t in audited or ("Oomd::" + t) in audited or any(t == a.split("::")[-1] for a in audited):
                continue     # an aggregate whose own fields are audited
            fq = fld["qname"]
            acc = []     # (thread label, fn, node, is_write, held)
            for f, i in la.field_accesses(fq):
                o = f
                while o.kind == "lambda" and o.d.get("parentfn") in prog.fns:
                    o = prog.fns[o.d["parentfn"]]
                if exclude_ctor_dtor and (f.usr in only_cd or (o.usr in only_cd and f.usr not in set(thread_roots.values()))):
                    continue
                labs = [lab for lab, r in reach.items() if f.usr in r] or ["main"]
                w = access_is_write(f, i, fq)
                held = effective_locks(la.held(f, i), w)
                for lab in labs:
                    acc.append((lab, f, i, w, held))
            for f in prog.fns.values():
                if exclude_ctor_dtor and f.usr in only_cd:
                    continue
                for i in alias_write_nodes(f, fq):
                    labs = [lab for lab, r in reach.items() if f.usr in r] or ["main"]
                    held = effective_locks(la.held(f, i), True)
                    for lab in labs:
                        acc.append((lab, f, i, True, held))
            if not acc:
                continue
            labs = {a[0] for a in acc}
            concurrent = len(labs) > 1 or bool(labs & set(self_concurrent))
            if not concurrent or not any(a[3] for a in acc):
                continue
            common = None
            for a in acc:
                common = set(a[4]) if common is None else (common & set(a[4]))
            if common:
                out.append((fq, "ok", "shared by %s, always under %s" % (sorted(labs), sorted(x.split("::")[-1] for x in common)), []))
            else:
                wit = ["%s: %s at %s holding %s" % (a[0], "write" if a[3] else "read", a[1].loc(a[2]), sorted(x.split("::")[-1] for x in a[4]) or "nothing") for a in acc[:6]]
                out.append((fq, "race", "accessed from threads %s with a write and no common lock" % sorted(labs), wit))
    return out
