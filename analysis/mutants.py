"""Checker validation (DESIGN 7): positive controls (seeded violations that must
be reported) and negative controls (behaviour-preserving rewrites that must stay
silent), applied to scratch copies of /repo under /tmp and removed afterwards.

Catalogue entries live in /verif/mutants/catalog.py:
  {"pid": "C05", "name": "...", "file": "src/oomd/...", "old": "...", "new": "...",
   "expect": "<substring of the violated instance id>", "kind": "mutant"|"refactor",
   "pids": [...]}   # refactors list the properties they must not disturb
An entry whose `old` text is no longer present is reported as inapplicable.
"""
import importlib.util
import json
import os
import shutil
import subprocess
import sys
import tempfile
import time
from concurrent.futures import ProcessPoolExecutor

from .facts import VERIF, AnalysisBroken


def load_catalog():
    p = os.path.join(VERIF, "mutants", "catalog.py")
    if not os.path.exists(p):
        return []
    spec = importlib.util.spec_from_file_location("verif_mutant_catalog", p)
    m = importlib.util.module_from_spec(spec)
    spec.loader.exec_module(m)
    return list(m.CATALOG)


def make_scratch(repo):
    d = tempfile.mkdtemp(prefix="oomd-verif.")
    shutil.copytree(os.path.join(repo, "src"), os.path.join(d, "src"))
    shutil.copy(os.path.join(repo, "meson.build"), os.path.join(d, "meson.build"))
    return d


def apply_entry(root, e):
    """Returns True if applied."""
    if "patch" in e:
        # a seeded change kept under /verif/seeded/<id>/patch.diff (DESIGN 13)
        pf = os.path.join(VERIF, e["patch"])
        r = subprocess.run(["patch", "-p1", "-s", "-f", "-d", root, "-i", pf], stdout=subprocess.PIPE, stderr=subprocess.STDOUT)
        return r.returncode == 0
    edits = e.get("edits") or ([{"file": e["file"], "regex": e["regex"], "repl": e["repl"]}] if "regex" in e else
                              [{"file": e["file"], "old": e["old"], "new": e["new"]}])
    texts = {}
    for ed in edits:
        p = os.path.join(root, ed["file"])
        if p not in texts:
            try:
                texts[p] = open(p).read()
            except OSError:
                return False
        if "regex" in ed:
            # identifier rename (behaviour preserving): every whole-word occurrence in the file
            import re
            new_text, n = re.subn(ed["regex"], ed["repl"], texts[p])
            if n == 0:
                return False
            texts[p] = new_text
            continue
        if texts[p].count(ed["old"]) < 1:
            return False
        texts[p] = texts[p].replace(ed["old"], ed["new"], 1)
    for p, t in texts.items():
        with open(p, "w") as f:
            f.write(t)
    return True


def _violations(pid, root):
    """Run the rules of pid on root in a child interpreter; returns (list of obligations, rc, output)."""
    cmd = [sys.executable, os.path.join(VERIF, "check"), pid, "--root", root, "--json", "--no-evidence"]
    env = dict(os.environ)
    env["VERIF_NO_MERGED_CACHE"] = "1"
    p = subprocess.run(cmd, stdout=subprocess.PIPE, stderr=subprocess.PIPE, text=True, env=env)
    if p.returncode != 0:
        return None, p.returncode, (p.stdout + p.stderr)[-1500:]
    try:
        line = p.stdout.strip().splitlines()[-1]
        return json.loads(line), 0, ""
    except Exception as ex:
        return None, 3, "unparsable output: %s" % ex


def _run_entry(args):
    e, pid, repo, base_viol = args
    root = make_scratch(repo)
    t0 = time.time()
    try:
        if not apply_entry(root, e):
            return {"name": e["name"], "result": "inapplicable"}
        obs, rc, out = _violations(pid, root)
        if obs is None:
            if rc == 2 and "does not parse" not in out and "extractor failed" not in out:
                return {"name": e["name"], "result": "analysis-broken", "detail": out[-300:]}
            return {"name": e["name"], "result": "broken", "rc": rc, "detail": out[-600:]}
        viol = [o for o in obs if o["verdict"] == "violated" and o["instance"] not in base_viol]
        brk = [o for o in obs if o["verdict"] == "broken"]
        if e.get("kind", "mutant") == "refactor":
            if viol:
                return {"name": e["name"], "result": "alarm",
                        "instances": [o["instance"] for o in viol][:5]}
            return {"name": e["name"], "result": "silent" if not brk else "analysis-broken",
                    "wall_s": round(time.time() - t0, 1)}
        exp = e.get("expect", "")
        hit = [o for o in viol if exp in o["instance"]]
        if hit:
            return {"name": e["name"], "result": "detected", "instance": hit[0]["instance"],
                    "at": hit[0]["at"], "wall_s": round(time.time() - t0, 1)}
        if viol:
            return {"name": e["name"], "result": "detected-other",
                    "instances": [o["instance"] for o in viol][:5]}
        if brk:
            # vanished anchor: reported as analysis broken, which is not a pass
            return {"name": e["name"], "result": "analysis-broken",
                    "instances": [o["instance"] for o in brk][:5]}
        return {"name": e["name"], "result": "missed"}
    finally:
        shutil.rmtree(root, ignore_errors=True)


def run_suite(pid, repo, seed=0, jobs=8):
    cat = load_catalog()
    mine = [e for e in cat if e.get("kind", "mutant") == "mutant" and e["pid"] == pid]
    refs = [e for e in cat if e.get("kind") == "refactor" and pid in e.get("pids", [])]
    only = os.environ.get("OOMD_MUT_ONLY")      # debugging aid: regular expression on the entry name
    if only:
        import re
        mine = [e for e in mine if re.search(only, e["name"])]
        refs = [e for e in refs if re.search(only, e["name"])]
    base, rc, out = _violations(pid, repo)
    if base is None:
        raise AnalysisBroken("baseline run failed before mutant suite: " + out[-300:])
    base_viol = {o["instance"] for o in base if o["verdict"] == "violated"}
    work = [(e, pid, repo, base_viol) for e in mine + refs]
    results = []
    if work:
        with ProcessPoolExecutor(max_workers=min(jobs, len(work))) as ex:
            results = list(ex.map(_run_entry, work))
    by = {}
    for r in results:
        by.setdefault(r["result"], []).append(r["name"])
    missed = by.get("missed", []) + by.get("broken", [])
    return {
        "mutants_total": len(mine),
        "mutants_detected": len(by.get("detected", [])) + len(by.get("detected-other", [])),
        "mutants_detected_as_analysis_broken": by.get("analysis-broken", []),
        "mutants_inapplicable": by.get("inapplicable", []),
        "mutants_missed": missed,
        "negative_controls_total": len(refs),
        "negative_controls_silent": len(by.get("silent", [])),
        "negative_controls_alarmed": by.get("alarm", []),
        "mutant_results": results,
    }


if __name__ == "__main__":
    pid = sys.argv[1]
    r = run_suite(pid, sys.argv[2] if len(sys.argv) > 2 else "/repo")
    for x in r["mutant_results"]:
        print(x)
    print({k: v for k, v in r.items() if k != "mutant_results"})
