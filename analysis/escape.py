"""E-ESCAPE: which throw sites can escape from a root function.

Throw sites: `throw` expressions and calls to a frozen table of throwing library
APIs, each with a trigger class.  A site is locally guarded when it is dominated
by the idiom that excludes the throw (same-object truthiness for optional-like
values, find/count/contains for map::at, size facts for sequence at()).
Unguarded sites propagate up the call graph through every call that is not
enclosed by a try whose handlers cover the thrown type.
"""
import re

from .cfg import Flow
from .program import plain

# exception type lattice: handler type -> set of covered types (besides itself)
COVERS = {
    "...": None,   # everything
    "std::exception": None,
    "std::logic_error": {"std::invalid_argument", "std::out_of_range", "std::domain_error",
                         "std::length_error", "std::future_error", "Json::LogicError"},
    "std::runtime_error": {"std::system_error", "std::range_error", "std::overflow_error",
                           "std::underflow_error", "std::filesystem::filesystem_error",
                           "Json::RuntimeError", "std::regex_error"},
    "Json::Exception": {"Json::LogicError", "Json::RuntimeError"},
    "std::bad_variant_access": set(),
    "std::bad_optional_access": set(),
}


def norm_type(t):
    t = t.replace("const ", "").replace("&", "").strip()
    return t


def handler_covers(handler, exc):
    """exc may be 'A|B' (either may be thrown): every alternative must be covered."""
    h = norm_type(handler)
    for e in exc.split("|"):
        e = norm_type(e)
        if h == "..." or h == e:
            continue
        if h in COVERS:
            c = COVERS[h]
            if c is None or e in c:
                continue
        return False
    return True


# (regex on plain callee qname, trigger class, exception type)
THROWING_APIS = [
    (r"^std::sto(i|l|ll|ul|ull|f|d|ld)$", "text", "std::invalid_argument|std::out_of_range"),
    (r"^std::(vector|basic_string|array|deque|map|unordered_map)::at$", "absent", "std::out_of_range"),
    (r"^std::basic_string::substr$", "strpos", "std::out_of_range"),
    (r"^Oomd::CgroupPath::getParent$", "absent", "std::invalid_argument"),
    (r"^std::optional::value$", "absent", "std::bad_optional_access"),
    (r"^Oomd::SystemMaybe::(value|operator\*|operator->)$", "absent", "std::bad_variant_access"),
    (r"^Oomd::SystemMaybe::error$", "absent", "std::bad_variant_access"),
    (r"^std::get$", "absent", "std::bad_variant_access"),
    (r"^Json::Value::(get|operator\[\]|asString|asBool|asInt|asUInt|asInt64|asUInt64|asDouble|asFloat|"
     r"getMemberNames|asCString|begin|end|size)$", "shape", "Json::LogicError"),
    (r"^std::random_device::(random_device|operator\(\))$", "env", "std::runtime_error"),
    (r"^std::function::operator\(\)$", "empty", "std::bad_function_call"),
    (r"^std::future::get$", "env", "std::exception"),
    (r"^std::promise::set_value$", "env", "std::future_error"),
    (r"^std::chrono::.*", None, None),
    # the std::filesystem operations: the overload without a std::error_code& reports failure by throwing (class "fs": state of
    # the file system - a vanished file, a directory where a file was expected, EACCES)
    (r"^std::filesystem::(file_size|exists|is_directory|is_regular_file|is_symlink|is_empty|is_other|is_block_file|is_character_file|is_fifo|is_socket|"
     r"remove|remove_all|rename|copy|copy_file|copy_symlink|create_directory|create_directories|create_symlink|create_hard_link|create_directory_symlink|"
     r"status|symlink_status|last_write_time|canonical|weakly_canonical|read_symlink|current_path|temp_directory_path|space|equivalent|hard_link_count|"
     r"resize_file|permissions|absolute|relative|proximate|"
     r"directory_iterator::directory_iterator|recursive_directory_iterator::recursive_directory_iterator|directory_iterator::operator\+\+|"
     r"recursive_directory_iterator::operator\+\+|directory_entry::(file_size|exists|is_directory|is_regular_file|is_symlink|status|symlink_status|last_write_time|refresh|directory_entry))$",
     "fs", "std::filesystem::filesystem_error"),
]
# functions of the library that are treated as primitives (not descended into)
PRIMITIVES = re.compile(r"^Oomd::(SystemMaybe::(value|operator\*|operator->|error)|CgroupPath::getParent)$")
# json accessors that only throw on a shape mismatch of a *present* value
_JSON_SAFE = {"isString", "isBool", "isNumeric", "isObject", "isArray", "isNull", "isMember", "isInt",
              "isConvertibleTo", "empty", "type"}


class Site:
    __slots__ = ("fn", "node", "cls", "exc", "what")

    def __init__(self, fn, node, cls, exc, what):
        self.fn, self.node, self.cls, self.exc, self.what = fn, node, cls, exc, what

    @property
    def key(self):
        return (self.fn.usr, self.node)

    def loc(self):
        return self.fn.loc(self.node)


def _api(callee):
    for rx, cls, exc in THROWING_APIS:
        if re.match(rx, callee):
            return cls, exc
    return None, None


class Escape:
    def __init__(self, prog, cg):
        self.prog, self.cg = prog, cg
        self._sites = {}
        self._flows = {}
        self._esc = None
        self.term = {}

    def flow(self, f):
        if f.usr not in self._flows:
            self._flows[f.usr] = Flow(self.prog, f, cg=self.cg)
        return self._flows[f.usr]

    # ------------------------------------------------------------ local sites
    def sites(self, f):
        if f.usr in self._sites:
            return self._sites[f.usr]
        out = []
        if not PRIMITIVES.match(f.pq):
            for i, n in enumerate(f.nodes):
                k = n["k"]
                if k == "throw":
                    if "sub" not in n:
                        continue       # rethrow
                    t = norm_type(n.get("ttype", "?"))
                    cls = "assert" if n.get("mac") == "OCHECK_EXCEPT" else "explicit"
                    out.append(Site(f, i, cls, t, "throw " + t))
                elif k in ("call", "construct"):
                    c = plain(n.get("callee", ""))
                    if not c:
                        continue
                    cls, exc = _api(c)
                    if cls is None:
                        continue
                    if cls == "empty":
                        continue       # std::function targets are resolved by the call graph (gap otherwise)
                    if cls == "fs" and any("error_code" in t_ for t_ in n.get("ptypes", [])):
                        continue       # the non-throwing overload
                    if self.guarded(f, i, c):
                        continue
                    out.append(Site(f, i, cls, exc, c.split("::")[-1] + " on " + (
                        f.text(n["recv"]) if "recv" in n else f.text(n["args"][0]) if n.get("args") else "?")[:60]))
        self._sites[f.usr] = out
        return out

    def guarded(self, f, i, callee):
        """Is throwing-API call i excluded from throwing by a dominating idiom?"""
        n = f.nodes[i]
        if "recv" not in n:
            return False
        obj = f.text(n["recv"])
        last = callee.split("::")[-1]
        try:
            g = self.flow(f).guards(i)
        except KeyError:
            return False
        if callee.startswith(("std::optional::value", "Oomd::SystemMaybe::")):
            want = last != "error"
            rn = f.nodes[f.strip(n["recv"])]
            if rn["k"] in ("call", "construct") and rn.get("cname") not in ("operator*", "operator->", "get", "value"):
                return False       # fresh call result: never guarded
            return (obj, want) in g
        if callee == "Oomd::CgroupPath::getParent":
            if ("%s.isRoot()" % obj, False) in g:
                return True
            # the precondition may be established by the callers: a non-virtual member helper that is only ever called on `this`,
            # every call dominated by the same test of the same member
            if obj.startswith("this->") and f.kind == "method" and not f.d.get("virtual") and not getattr(self, "_in_caller_check", False):
                edges = [e for e in self.cg.callers(f.usr) if isinstance(e.node, int)]
                ok = bool(edges)
                for e in edges:
                    cf = self.prog.fns.get(e.src)
                    cn = cf.nodes[e.node] if cf is not None else None
                    if cf is None or cf.cls != f.cls or cn is None or ("recv" in cn and cf.nodes[cf.strip(cn["recv"])]["k"] != "this"):
                        ok = False
                        break
                    try:
                        gc = self.flow(cf).guards(e.node)
                    except KeyError:
                        ok = False
                        break
                    if ("%s.isRoot()" % obj, False) not in gc:
                        ok = False
                        break
                return ok
            # ... or the object is a parameter of a (non-virtual) helper and every caller passes an object it has tested
            pidx = next((k for k, p_ in enumerate(f.params) if p_["name"] == obj), None)
            if pidx is not None and not f.d.get("virtual") and f.kind in ("function", "method") and not getattr(self, "_in_caller_check", False):
                edges = [e for e in self.cg.callers(f.usr) if isinstance(e.node, int)]
                ok = bool(edges)
                for e in edges:
                    cf = self.prog.fns.get(e.src)
                    cn = cf.nodes[e.node] if cf is not None else None
                    if cf is None or cn is None or pidx >= len(cn.get("args", [])):
                        ok = False
                        break
                    arg = cf.text(cn["args"][pidx])
                    try:
                        gc = self.flow(cf).guards(e.node)
                    except KeyError:
                        ok = False
                        break
                    if ("%s.isRoot()" % arg, False) not in gc:
                        ok = False
                        break
                return ok
            return False
        if last == "at" and callee.startswith(("std::map", "std::unordered_map")):
            key = f.text(n["args"][0]) if n.get("args") else "?"
            if obj.endswith("->"):
                # m->at(k) through an optional-like holder: the idioms read m->find(k), m->count(k), m->end()
                g = [(k_.replace(obj, obj[:-2] + "."), p_) if isinstance(k_, str) else (k_, p_) for k_, p_ in g]
                obj = obj[:-2]
            for k, p in g:
                if p is False and k in ("(%s.end() == %s.find(%s))" % (obj, obj, key),
                                        "(%s.find(%s) == %s.end())" % (obj, key, obj)):
                    return True
                if p is True and k in ("%s.count(%s)" % (obj, key), "%s.contains(%s)" % (obj, key),
                                       "(0 < %s.count(%s))" % (obj, key)):
                    return True
                if p is False and k == "(0 == %s.count(%s))" % (obj, key):
                    return True
            # the key is present on every path for one of two reasons: it was found, or a member function that stores into this map on
            # every successful return has just succeeded (`if (m.find(k) == m.end()) { if (!this->registerX(..)) continue; }  m.at(k)`)
            if obj.startswith("this->") and n.get("args"):
                return self._key_established(f, i, obj, key)
            return False
        if last == "at":
            idx = f.text(n["args"][0]) if n.get("args") else "?"
            for k, p in g:
                if p is True and k == "(%s < %s.size())" % (idx, obj):
                    return True
                m_ = re.match(r"^\(%s < (\w+)\)$" % re.escape(idx), k) if p is True else None
                if m_ and self._is_hoisted_size(f, m_.group(1), obj):
                    return True
                if idx.isdigit():
                    # size() > n, size() >= n+1, !empty() for n == 0
                    if p is True and k == "(%s < %s.size())" % (idx, obj):
                        return True
                    if idx == "0" and ((k == "%s.empty()" % obj and p is False) or (k == "%s.size()" % obj and p is True)):
                        return True
            return False
        return False

    SHRINKERS = ("clear", "pop_back", "erase", "resize", "assign", "swap", "operator=", "shrink_to_fit", "extract")

    def _is_hoisted_size(self, f, name, obj):
        """`name` is a local defined once as obj.size() and obj is not shrunk anywhere in the function."""
        from .rules.common import local_init, local_writes
        try:
            init, v = local_init(f, name, must=False)
        except Exception:
            return False
        if init is None or init < 0 or v is None or local_writes(f, name):
            return False
        if f.text(init) != "%s.size()" % obj:
            return False
        for c in f.calls():
            n = f.nodes[c]
            if "recv" in n and f.text(n["recv"]) == obj and n.get("cname") in self.SHRINKERS:
                return False
        for b in f.all("bin"):
            if f.nodes[b].get("op") == "=" and f.text(f.nodes[b]["l"]) == obj:
                return False
        return True

    def _stores_on_success(self, h, field):
        """Does member function h write the map `field` (by key) before every `return true`?"""
        from .rules.common import field_writes, returns, ret_text
        ws = [w for w in field_writes(h, field) if h.pos_of(w) is not None]
        ws += [c for c in h.calls("insert_or_assign", "emplace", "try_emplace", "insert") if "recv" in h.nodes[c] and h.text(h.nodes[c]["recv"]) == "this->" + field
               and h.pos_of(c) is not None]
        if not ws:
            return False
        fl = Flow(self.prog, h, events={w: [("set", "stored")] for w in ws}, cg=self.cg)
        rt = [r for r in returns(h) if ret_text(h, r) == "true"]
        return bool(rt) and all(fl.must(r, "stored") for r in rt)

    def _key_established(self, f, i, obj, key):
        field = obj[len("this->"):]
        found_f = ("(%s.end() == %s.find(%s))" % (obj, obj, key), "(%s.find(%s) == %s.end())" % (obj, key, obj), "(0 == %s.count(%s))" % (obj, key))
        found_t = ("%s.count(%s)" % (obj, key), "%s.contains(%s)" % (obj, key), "(0 < %s.count(%s))" % (obj, key))
        helpers = {}

        def tok(k, p):
            if not isinstance(k, str):
                return None
            if (k in found_f and p is False) or (k in found_t and p is True):
                return ["present"]
            m = re.match(r"^this->(\w+)\(", k)
            if m and p is True:
                nm = m.group(1)
                if nm not in helpers:
                    hs = [h for h in self.prog.fns.values() if h.name == nm and h.cls == f.cls and h.kind == "method"]
                    helpers[nm] = len(hs) == 1 and self._stores_on_success(hs[0], field)
                if helpers[nm]:
                    return ["present"]
            return None
        try:
            fl = Flow(self.prog, f, cg=self.cg, edge_tokens=tok, split=lambda k: k in found_f or k in found_t)
            return fl.must(i, "present")
        except KeyError:
            return False

    # ------------------------------------------------------------ propagation
    def caught_at(self, f, node, exc):
        """Is an exception of type exc raised at node (in f) caught inside f?"""
        if isinstance(node, tuple):
            return False       # destructor elements: not inside a try body we track
        t = f.nodes[node].get("try")
        tries = {x["id"]: x for x in f.d.get("tries", [])}
        # every alternative of 'A|B' has to be covered by some enclosing handler
        pending = set(exc.split("|"))
        while t is not None and t >= 0 and t in tries and pending:
            for h in tries[t]["handlers"]:
                pending = {e for e in pending if not handler_covers(h, e)}
            t = tries[t]["parent"]
        return not pending

    def escaping(self):
        """usr -> {site key: (Site, via-edge or None)} for every function."""
        if self._esc is not None:
            return self._esc
        P, cg = self.prog, self.cg
        esc = {}
        for f in P.fns.values():
            d = {}
            for s in self.sites(f):
                if not self.caught_at(f, s.node, s.exc):
                    d[s.key] = (s, None)
            esc[f.usr] = d
        changed = True
        while changed:
            changed = False
            for u, f in P.fns.items():
                if PRIMITIVES.match(f.pq):
                    continue
                for e in cg.out.get(u, ()):
                    if e.dst == u:
                        continue
                    callee = P.fns[e.dst]
                    if PRIMITIVES.match(callee.pq):
                        continue
                    # thread roots are not calls.  An exception that leaves a nothrow function (noexcept, or a destructor) never reaches a
                    # handler: it is std::terminate.  Such a site is carried up through every caller whatever try blocks enclose the call,
                    # so that a root's report shows it (self.term[u] = keys that terminate on their way to u).
                    for key, (s, _) in list(esc[e.dst].items()):
                        term = callee.d.get("nothrow") or key in self.term.get(e.dst, ())
                        if term:
                            if key in self.term.setdefault(u, set()):
                                continue
                            self.term[u].add(key)
                            esc[u][key] = (s, e)
                            changed = True
                            continue
                        if key in esc[u]:
                            continue
                        if self.caught_at(f, e.node, s.exc):
                            continue
                        esc[u][key] = (s, e)
                        changed = True
        self._esc = esc
        return esc

    def chain(self, root_usr, key):
        """Call chain from root to the site (list of 'caller -> callee at loc')."""
        esc = self.escaping()
        out = []
        u = root_usr
        seen = set()
        while u not in seen:
            seen.add(u)
            ent = esc.get(u, {}).get(key)
            if not ent:
                break
            s, e = ent
            if e is None:
                out.append("%s: %s at %s" % (self.prog.fns[u].pq, s.what, s.loc()))
                break
            f = self.prog.fns[u]
            out.append("%s -> %s%s at %s" % (f.pq, self.prog.fns[e.dst].pq,
                                             " [declared nothrow: the exception cannot leave it, std::terminate]" if self.prog.fns[e.dst].d.get("nothrow") else "",
                                             f.loc(e.node) if isinstance(e.node, int) else "scope exit"))
            u = e.dst
        return out

    def from_root(self, root, classes=None):
        """[(Site, chain)] escaping from function `root`, filtered by trigger class."""
        esc = self.escaping()
        res = []
        for key, (s, e) in esc.get(root.usr, {}).items():
            if classes and s.cls not in classes:
                continue
            res.append((s, self.chain(root.usr, key)))
        res.sort(key=lambda x: (x[0].fn.file, x[0].fn.nodes[x[0].node]["line"]))
        return res

    def from_call(self, f, node, classes=None):
        """Sites escaping through call node `node` of f (not caught in f)."""
        esc = self.escaping()
        res = []
        for e in self.cg.out.get(f.usr, ()):
            if e.node != node:
                continue
            for key, (s, _) in esc.get(e.dst, {}).items():
                if classes and s.cls not in classes:
                    continue
                if self.caught_at(f, node, s.exc) and not (self.prog.fns[e.dst].d.get("nothrow") or key in self.term.get(e.dst, ())):
                    continue
                res.append((s, ["%s -> %s at %s" % (f.pq, self.prog.fns[e.dst].pq, f.loc(node))] +
                            self.chain(e.dst, key)))
        seen, out = set(), []
        for s, c in res:
            if s.key not in seen:
                seen.add(s.key)
                out.append((s, c))
        return out
