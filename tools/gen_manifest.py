#!/usr/bin/env python3
"""Regenerates /verif/MANIFEST.json from the table below (claimed checks) and
properties.jsonl (everything else goes to not_applicable with its reason)."""
import json, os
V = os.path.dirname(os.path.dirname(os.path.abspath(__file__)))

TECH = "custom libTooling fact extractor + CFG dataflow / call-graph rules (static)"
NOTE = ("Trusts clang 14's parser, Sema and CFG builder, the condition normalisation and write "
        "model of analysis/cfg.py, the callable-resolution tables of analysis/callgraph.py, and "
        "the hand argument (DESIGN 4) that each structural clause is necessary for the behaviour. "
        "Value clauses listed as not decided in the evidence are outside the claim.")

CLAIMED = {
 "C18": ("E-EFFECT", "Who-may-call tables for the memory.high / memory.high.tmp / memory.reclaim / swappiness writers, provenance of the directory fd through every internal call level back to Senpai::run's walk over the configured cgroups, order rules on adjust() (clamp then page mask then write), guard dominance of reclaim (pressure + optional swap validation, usage above the floor) and its size formula, poke-then-reset and modify-then-restore pairing on all exits, polarity agreement of the three threshold comparisons, and the key type of the tracked-state map. Structural clauses for all statistics, parameters and histories; numeric floor/ceiling values and factor curves are not decided.", "4/C18"),
 "C14": ("E-LOCK", "Lockset analysis with thread reachability: the hand-off queue only under queue_mutex_, the inotify descriptors only under event_loop_mutex_ on every non-constructor/destructor path, atomic directory-deleted flag, write-once fields, engine reference confined to the tick thread, an audit of every mutable global/static reachable from both the watcher root and the main loop, acyclic lock order with the expected nesting, exception escape from the watcher's entry function, a frozen table of watcher abort points, dot-file guards and the sorted, locked start-up load. Decides data-race and lock-inversion freedom structurally for all interleavings; convergence, inotify semantics and liveness are not decided.", "4/C14"),
 "C19": ("E-LOCK", "Lockset analysis (RAII guards on mutex members, held sets propagated to callees and into condition-variable predicates) showing that the counter map is only accessed under stats_mutex_ in single critical sections and thread_count_ only under thread_mutex_; lock-order acyclicity; path rules for the handler slot (taken before the thread starts, released with a notification on every exit), connection close on every exit, at most one reply, the request switch table, the bounded read loop, reset's key preservation, startSocket's failure returns and their conversion to an init failure, bounded copies into sun_path, destructor order, and exception escape from the two service thread roots. Holds for all interleavings and request bytes; timing and kernel socket behaviour are not decided.", "4/C19"),
 "C20": ("E-LOCK", "Lockset analysis of the double-buffer state (every AsyncLogState field under state_.lock, with the single audited hand-over of the swapped-out queue), dominance of the backlog cap test over the enqueue with drop counting, a use-after-move rule on the size accounting, reset and drop reporting in the flusher, thread_local storage of the silencing flag and its independence from kmsgLog, and the stop/notify/join order with a final flush. Decides lock discipline and accounting structure for all schedules; exactly-once FIFO delivery and the numeric memory bound are not decided.", "4/C20"),
 "C12": ("E-ESCAPE", "Exception-escape propagation (all trigger classes, jsoncpp shape errors included) from the configuration-loading call edges of main(), the drop-in watcher thread entry and DropInServiceAdaptor::updateDropIns; a full-consumption rule on every std::sto* that converts configuration text (followed through the strict helper's position parameter); guard dominance of the float->integer conversion in parseSize and of the megabyte shift; parser/destination type agreement for every addArgumentCustom; a sibling rule over all plugin init overrides and PluginArgParser::parse's error edges; the JSON front end's invalid-plugin return; null-on-failure and IR order of the compile functions. Decided for all configuration texts at once; exact byte values of valid sizes are not decided.", "4/C12"),
 "C10": ("E-ESCAPE", "Exception-escape propagation over the whole-library call graph (try/handler type lattice, guard idioms for optional/SystemMaybe/map::at/getParent) from the four main-loop calls, an index-guard rule on every index into a control file's line vector (including the PSI parser through a summary of getPsiFormat), sibling agreement of readDirFromDIR's d_type and fstatat branches, erase-in-iteration over all tick-reachable functions, the by-fd discipline (path based opens only at audited sites) and a frozen table of abort sites. Decides these for every fault sequence of the stated model at once; freedom from all UB and from hangs is not decided, and std::sto* on present kernel files is outside the fault model.", "4/C10"),
 "C11": ("E-PATH", "Static rules on the ruleset-cgroup instance management: per-iteration at-most-once / exactly-once execution of the matching cgroup's instance with condition splitting on the xattr filter, creation only when absent and keyed consistently by absolute path, visited marking, erase-in-iteration freedom of the drop loop, prerun reaching every live instance, fresh plugin ownership of new instances and the default cgroup argument. Decided for all histories of cgroups appearing/disappearing because it is a property of the code paths; detector window values are not decided.", "4/C11"),
 "C13": ("E-PATH", "Pairing and ordering rules on the drop-in machinery: a successful add is exactly emplace_front + markDropInTargeted + stat(+1), a refused add leaves nothing; removal erases by tag, untargets once per erased drop-in and subtracts the same count; partially added units are cleaned up; merge moves parts only under their permission flag; targets are fresh compiles of the base; updates remove before re-adding; drop-ins front-to-back before their base. These are the structural pre-conditions of reversibility; the state equation over all operation sequences is not decided.", "4/C13"),
 "C07": ("E-PATH", "Static path analysis of the prekill-hook protocol: at most one invocation per candidate and only inside the timeout window; an unfinished invocation is always stored and DEFER returned with no kill; the invocation object is destroyed (local scope exit / state reset) before any kill continuation; a second invocation can never be stored; the deferred victim is re-resolved by path and inode id or the cycle fails without a kill; Engine::firePrekillHook walks the priority list from its back, fires the first matching hook and returns; hooks are inserted by reverse iteration, drop-in hooks only after all rulesets were accepted. Holds for all hook lists, completion times and histories as a property of the CFG; hook timing and hook plugin behaviour are not decided.", "4/C07"),
 "C17": ("E-PATH", "Static order / dominance / value-shape rules on the kill accounting: uuid+initiation xattrs before every kill sink, completion xattr with the returned nrKilled on every path to the final return, +1 / +count on both attribute copies, nrKilled incremented only on the kill(2)==0 edge, counter and kmsg record dominated by 'a process was signalled' (counter also by !dry), kmsg write independent of log silencing, record fields, uuid provenance, the PluginRet table of BaseKillPlugin::run, and an exception-escape analysis showing that arbitrary pre-existing xattr text cannot throw out of the helpers. Arithmetic on xattr values is not decided.", "4/C17"),
 "C03": ("E-PATH", "Expression-tree rule on the single comparator used by all kill plugins (preference first, descending; enum values PREFER>NORMAL>AVOID), sibling agreement of the five rankForKilling overrides, exhaustive path enumeration of readKillPreferenceAt (prefer probed before avoid), guard dominance of the DFS (recursive_, memory.oom.group, populated), fallback reachability after a failed kill, pop/reverse/push order. Decides the structure for all trees and xattr/outcome assignments; std::sort's result on concrete metric values is not decided.", "4/C03"),
 "C04": ("E-EFFECT", "May-reach-sink analysis over the whole-library call graph from the dry-aware run() methods: every effect sink (kill, pidfd/mrelease syscalls, xattr and cgroup control-file writes, sd_bus_call_method, kill/restart counters) is dominated by dry==false or lies in a function reachable only through such call sites (greatest fixpoint); plus a frozen table of the places where the dry flag may be read, so it cannot influence selection or the returned PluginRet. Holds for every world and configuration; external hook effects are not decided.", "4/C04"),
 "C01": ("E-EFFECT", "Whole-library who-may-call tables for every signalling / reaping / cgroup.kill / cgroup.freeze / xattr-write sink, argument provenance (by expansion of single-definition locals) from kill(2)'s pid back to openat(victim dir fd, cgroup.procs) and from every KillCandidate back to rankForKilling(configured cgroups | children under the recursive guard | re-resolved by inode), the pid>0 guard, and never-after-success on the kill loops. These are properties of the resolved program, so they hold for all trees, configurations and histories; behaviour of the kernel and path-based xattr TOCTOU are not decided.", "4/C01"),
 "C06": ("E-PATH", "Static path analysis of the suspend/resume code: ASYNC_PAUSED saves (this plugin, current context) and returns; the resume branch restores the saved context before clearing it, clears before running, restarts at the saved plugin by identity and returns; scope guard covers all exits; kill plugins return ASYNC_PAUSED only on their documented edges; suspended state is per ruleset instance. Structural clauses only; uuid freshness as a value is not decided.", "4/C06"),
 "C02": ("E-PATH", "Static path analysis of the engine's control structure (per-iteration exactly-once execution of every detector/prerun, no early exits, switch tables on PluginRet, guard dominance of chain starts, drop-ins before base, main-loop order). Holds for all configurations and return-value histories because it is a property of the CFG, not of sampled runs. Decides the structural clauses only.", "4/C02"),
 "C05": ("E-PATH", "Static path analysis over the clang CFGs of the real source: the strict steady-clock pause gate dominates every chain start/resume; the invoking ruleset is set on every action path; STOP writes the pause iff not overridden and resets the flag; pause_actions callers return STOP. Decides these necessary conditions for all inputs and histories at once, not the clock arithmetic.", "4/C05"),
}
NA = {}
DEFAULT_NA = "rules not implemented yet in this revision (see DESIGN.md 9, implementation order)"

props = [json.loads(l) for l in open(os.path.join(V, "properties.jsonl"))]
checks = []
for p in props:
    pid = p["id"]
    if pid not in CLAIMED:
        continue
    eng, text, ref = CLAIMED[pid]
    checks.append({
        "property_id": pid,
        "quick_cmd": "./check %s --tier quick" % pid,
        "thorough_cmd": "./check %s --tier thorough" % pid,
        "evidence_file": "/verif/evidence/%s.json" % pid,
        "replay_cmd_template": "./check %s --replay {path}" % pid,
        "engine": eng,
        "level_claimed": {"category": "other", "text": text, "design_ref": "DESIGN.md " + ref},
        "level_note": NOTE,
        "technique": TECH,
    })
m = {
 "version": 1,
 "setup_cmd": "./setup.sh",
 "hooks": {"guard": "OOMD_VERIF",
           "enable": "none needed: the analysis reads /repo's source; there are no hook commits",
           "baseline_off_cmd": "meson compile -C /repo/_build && meson test -C /repo/_build --print-errorlogs",
           "source_commits": [], "add_only": True},
 "engines": [
  {"name": "oomd_facts", "path": "extractor/oomd_facts.cc", "serves_properties": sorted(CLAIMED),
   "kind_free_text": "libTooling extractor: AST node tables + clang CFG per function (incl. lambdas, instantiations, global initialisers), classes, globals"},
  {"name": "analysis", "path": "analysis/", "serves_properties": sorted(CLAIMED),
   "kind_free_text": "Python rule engines: call graph with callable resolution, flag/condition-sensitive CFG dataflow (must/may tokens, guard facts), per-property rule tables, mutant/negative-control harness"}],
 "checks": checks,
 "notes": "Static analysis only. Exit 0 ok (KNOWN-FINDING lines for listed findings) / 1 VIOLATION / 2 analysis broken (vanished anchor, instance floor, parse failure, undetected seeded mutant in thorough tier).",
 "not_applicable": [{"property_id": p["id"], "reason": NA.get(p["id"], DEFAULT_NA)} for p in props if p["id"] not in CLAIMED],
}
json.dump(m, open(os.path.join(V, "MANIFEST.json"), "w"), indent=1)
print("claimed:", sorted(CLAIMED), "n/a:", len(m["not_applicable"]))
