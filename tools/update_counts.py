#!/usr/bin/env python3
"""usage: tools/update_counts.py <sweep log>  -- rewrites the mutant / control counts table of DESIGN.md section 13 from a full sweep log
(`for p in C01..C20: python3 -m analysis.mutants $p | tail -N`), and prints the totals.  Refuses if the sweep shows a missed mutant or an
alarming control."""
import ast, re, sys
rows = []
for l in open(sys.argv[1]):
    if l.startswith("{'mutants_total'"):
        rows.append(ast.literal_eval(l.strip()))
assert len(rows) == 20, "expected 20 summary rows, found %d" % len(rows)
bad = [(i + 1, r) for i, r in enumerate(rows) if r["mutants_missed"] or r["negative_controls_alarmed"] or r["mutants_detected"] != r["mutants_total"]]
if bad:
    print("sweep is not clean:", bad)
    sys.exit(1)
tm = sum(r["mutants_total"] for r in rows); tc = sum(r["negative_controls_total"] for r in rows)
tbl = "| Property | mutants | negative controls |\n|---|---|---|\n" + "\n".join("| C%02d | %d | %d |" % (i + 1, r["mutants_total"], r["negative_controls_total"]) for i, r in enumerate(rows))
s = open("/verif/DESIGN.md").read()
a = s.index("| Property | mutants | negative controls |")
b = s.index("\n\n", a)
note_a = s.index("(mutant counts include", b)
note_b = s.index("\n", note_a)
note = ("(mutant counts include the property's `seeded-change*` entries - every stored seed of the property - and negative controls include every stored "
        "refactor patch, which runs for every property; last full sweep: %d mutants, all detected as VIOLATION at the named instance; %d control runs, none "
        "alarmed, %d of them 'analysis broken' with the unfollowed construct named.)" % (tm, tc, sum(len([x for x in r["mutants_detected_as_analysis_broken"] if x.startswith("refactor/")]) for r in rows)))
s = s[:a] + tbl + s[b:note_a] + note + s[note_b:]
open("/verif/DESIGN.md", "w").write(s)
print("mutants", tm, "controls", tc)
