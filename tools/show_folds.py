#!/usr/bin/env python3
"""usage: tools/show_folds.py <patch.diff>  -- which new helpers / closures the normalisation folds back for a patched scratch copy"""
import os, shutil, subprocess, sys, tempfile
sys.path.insert(0, os.path.join(os.path.dirname(os.path.abspath(__file__)), ".."))
from analysis.program import load
from analysis.inline import known_functions, closure_holder
from analysis.program import plain
d = tempfile.mkdtemp(prefix="oomd-verif.")
try:
    shutil.copytree("/repo/src", d + "/src"); shutil.copy("/repo/meson.build", d + "/meson.build")
    subprocess.run(["patch", "-p1", "-s", "-f", "-d", d, "-i", os.path.abspath(sys.argv[1])], check=True)
    P = load(d)[0]
    for x in P.folded_helpers:
        print("FOLDED", x)
    known, kc = known_functions()
    for f in P.fns.values():
        if not f.file.startswith("oomd/") or f.d.get("inlined_into") or "@in:" in f.usr:
            continue
        if f.kind in ("function", "method") and not f.d.get("parentfn") and plain(f.d["qname"]) not in known:
            print("NEW, not folded:", f.pq, f.loc())
        if f.kind == "lambda":
            par, h = closure_holder(P, f)
            if par is not None and h and ("%s|%s" % (par.pq, h)) not in kc:
                print("NEW closure, not folded:", par.pq, h, f.loc())
finally:
    shutil.rmtree(d, ignore_errors=True)
