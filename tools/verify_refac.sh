#!/bin/sh
WT=$1
cd "$WT" || exit 2
git checkout -q -- src 2>/dev/null
git apply --check seed/patch.diff || { echo "VERDICT $WT patch-does-not-apply"; exit 1; }
git apply seed/patch.diff
[ -d _build ] || meson setup _build >/dev/null 2>&1
timeout 1500 meson compile -C _build >/tmp/$(basename $WT).build.log 2>&1 || { echo "VERDICT $WT build-fails-with-patch"; git checkout -q -- src; exit 1; }
timeout 900 meson test -C _build >/tmp/$(basename $WT).test.log 2>&1
OKT=$(grep -E "^Ok:" /tmp/$(basename $WT).test.log | awk '{print $2}')
FAILT=$(grep -E "^Fail:" /tmp/$(basename $WT).test.log | awk '{print $2}')
TOUCH=$(git diff --name-only | grep -c "Test.cpp")
git checkout -q -- src
echo "VERDICT $WT tests_ok=$OKT tests_fail=$FAILT test_files_touched=$TOUCH"
