#!/usr/bin/env python3
"""usage: tools/sweep_summary.py <log>  -- one line per property from a `python3 -m analysis.mutants Cxx | tail -1` log."""
import ast, sys
pid = None
for line in open(sys.argv[1]):
    line = line.strip()
    if line.startswith('=='):
        pid = line[3:]
        continue
    try:
        d = ast.literal_eval(line)
    except Exception:
        print(pid, '??', line[:200])
        continue
    print(pid, d['mutants_detected'], '/', d['mutants_total'], 'missed', d['mutants_missed'], 'inappl', d['mutants_inapplicable'], 'broken-detect', d['mutants_detected_as_analysis_broken'],
          'ctl', d['negative_controls_silent'], '/', d['negative_controls_total'], 'alarmed', d['negative_controls_alarmed'])
