#!/usr/bin/env python3
"""Writes analysis/param_names.json: the parameter names of every project function on the reference tree (default /repo), keyed by
qualified name and parameter types.  Program._canonical_params uses it to identify parameters by position, so that a renamed
parameter does not disturb any rule.  Run once when the reference tree changes (the file is committed)."""
import json, os, sys
sys.path.insert(0, os.path.join(os.path.dirname(os.path.abspath(__file__)), ".."))
from analysis.program import Program, load
tbl = Program.PARAM_TABLE
if os.path.exists(tbl):
    os.unlink(tbl)            # extract with the names as written
from analysis.inline import KNOWN as _K
if os.path.exists(_K):
    os.unlink(_K)
P = load(sys.argv[1] if len(sys.argv) > 1 else "/repo", use_cache=False)[0]
out, clash = {}, set()
for f in P.fns.values():
    if not f.file.startswith("oomd/") or f.d.get("parentfn") or not f.params:
        continue
    k = Program.param_key(f)
    names = [p.get("name", "") for p in f.params]
    if k in out and out[k] != names:
        clash.add(k)
    out[k] = names
for k in clash:
    del out[k]
json.dump(out, open(tbl, "w"), indent=0, sort_keys=True)
print("wrote %s: %d functions (%d ambiguous keys dropped)" % (tbl, len(out), len(clash)))
# the names of all project functions on the reference tree: a function that is not in this list is NEW (analysis/inline.py)
from analysis.inline import KNOWN
from analysis.program import plain
names = sorted({plain(f.d["qname"]) for f in P.fns.values() if f.file.startswith("oomd/") and not f.d.get("parentfn") and f.kind != "lambda"})
from analysis.inline import closure_holder
closures = set()
for l in P.fns.values():
    if l.kind == "lambda" and l.file.startswith("oomd/"):
        par, holder = closure_holder(P, l)
        if par is not None and holder:
            closures.add("%s|%s" % (par.pq, holder))
json.dump({"functions": names, "closures": sorted(closures)}, open(KNOWN, "w"), indent=0)
print("wrote %s: %d function names, %d named closures" % (KNOWN, len(names), len(closures)))

# the names of all folded integral constants on the reference tree: a named constant that is not in this list is NEW and is rendered by
# its value in canonical texts (analysis/program.py, Fn.text), so that `x & ~kMask` reads like the `x & ~4095` it replaced
consts = set()
for f in P.fns.values():
    for n in f.nodes:
        if n.get("k") == "ref" and "cval" in n:
            consts.add(n.get("qname") or ("%s|%s" % (f.pq, n["name"])) if n.get("dk") != "local" else "%s|%s" % (f.pq, n["name"]))
KC = os.path.join(os.path.dirname(KNOWN), "known_constants.json")
json.dump(sorted(consts), open(KC, "w"), indent=0)
print("wrote %s: %d named constants" % (KC, len(consts)))
