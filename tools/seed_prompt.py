import sys
pid=sys.argv[1]
prop=open('/tmp/seed-%s.prop.txt'%pid).read()
print(f"""You are helping test a verification effort for the open-source project facebookincubator/oomd (a userspace Linux OOM killer, C++20, meson build). You have your own scratch git worktree of the project at /tmp/seed-{pid} . Work ONLY inside /tmp/seed-{pid} (never touch /repo or /verif, and do not read anything under /verif).

Here is a semantic property of oomd that is supposed to hold:

{prop}

YOUR TASK: produce ONE realistic change (a small patch, like a plausible regression or a subtly wrong refactor/"improvement" a developer could commit) to the oomd sources under /tmp/seed-{pid}/src that BREAKS this property, while
  (a) the project still compiles, and
  (b) the existing test suite still passes completely, and
  (c) the breakage needs something specific to manifest - a particular interleaving, a fault at a particular point, a multi-step sequence of operations, an unusual input or configuration, or two cooperating sites that each look fine alone. NOT something ordinary use would expose at once, and NOT a trivially obvious deletion of the main mechanism.
Also write a DEMONSTRATION: a small standalone C++ program (or an extra gtest file) that uses the real oomd code, FAILS (non-zero exit / failed assertion) with your change applied and PASSES without it.

How to build and test (offline sandbox, no network, everything needed is installed):
  cd /tmp/seed-{pid} && meson setup _build >/dev/null && meson compile -C _build && meson test -C _build
(the pristine tree passes 12/12 meson tests). A standalone demo can be built against the static library like this:
  c++ -std=c++20 -O1 -g -I/tmp/seed-{pid}/src -I/tmp/seed-{pid}/_build -I/usr/include/jsoncpp -DMESON_BUILD -D_FILE_OFFSET_BITS=64 -pthread demo.cpp -o demo -Wl,--whole-archive /tmp/seed-{pid}/_build/liboomd.a -Wl,--no-whole-archive -ljsoncpp -lsystemd -lstdc++fs
(The test fixtures library _build/liboomd_fixture.a and headers src/oomd/util/Fixture.h, src/oomd/fixtures/FsFixture.h can build fake cgroup trees in a temp dir; look at src/oomd/plugins/CorePluginsTest.cpp and src/oomd/util/TestHelper.h for how tests construct contexts. Always run demos under `timeout 60`.)

Deliverables, all under /tmp/seed-{pid}/seed/ :
  patch.diff   - `git diff` of your source change only (src/ files; must apply with `git apply` to the pristine worktree HEAD)
  demo.cpp (or demo_test.cpp) + build_demo.sh - the demonstration and the exact command to build+run it; exit code 0 = property holds, non-zero = broken
  README.md    - which clause of the property breaks, what specific circumstances are needed for it to manifest, and what you ran (build, full test suite result with the patch, demo result with and without the patch)
Before finishing, verify yourself: with the patch applied the project builds and `meson test -C _build` passes 12/12 and the demo FAILS; with the patch reverted (`git checkout -- src`) and the library rebuilt the demo PASSES. Leave the worktree with the patch REVERTED (pristine src) but keep the seed/ directory. Keep the final answer short: one paragraph on the change and the verification results.""")
