#!/bin/sh
# usage: tools/try_seed_wt.sh <worktree> [pids...]  -- applies seed/patch.diff inside the scratch worktree, runs the
# checks with --root <worktree>, reverts.  (Same as try_seed.sh but leaves /repo alone.)
WT=$1; shift
PIDS=${@:-"C01 C02 C03 C04 C05 C06 C07 C08 C09 C10 C11 C12 C13 C14 C15 C16 C17 C18 C19 C20"}
git -C $WT checkout -q -- src
git -C $WT apply seed/patch.diff || { echo "patch does not apply"; exit 2; }
cd /verif
for p in $PIDS; do
  out=$(./check $p --root $WT --no-evidence 2>&1); rc=$?
  echo "== $p rc=$rc"; echo "$out" | grep -E "^oomd/|ANALYSIS-BROKEN|VIOLATION|^  " | head -8
done
git -C $WT checkout -q -- src
