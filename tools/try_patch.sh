#!/bin/sh
# usage: tools/try_patch.sh <patch.diff> [pids...]  -- applies the patch to a scratch copy of /repo's sources (under /tmp, removed
# afterwards), runs the checks with --root on the copy.  Touches neither /repo nor any worktree.
PATCH=$1; shift
PIDS=${@:-"C01 C02 C03 C04 C05 C06 C07 C08 C09 C10 C11 C12 C13 C14 C15 C16 C17 C18 C19 C20"}
D=$(mktemp -d /tmp/oomd-verif.XXXXXX)
cp -r /repo/src $D/src; cp /repo/meson.build $D/meson.build
patch -p1 -s -f -d $D -i $PATCH || { echo "patch does not apply"; rm -rf $D; exit 2; }
cd /verif
for p in $PIDS; do
  out=$(./check $p --root $D --no-evidence 2>&1); rc=$?
  echo "== $p rc=$rc"; echo "$out" | grep -E "^oomd/|ANALYSIS-BROKEN|VIOLATION|^  " | head -${TRY_LINES:-8}
done
rm -rf $D
