#!/bin/sh
# usage: tools/verify_seed.sh <worktree>   -- confirms a seeded change: applies seed/patch.diff, builds, runs the suite
# and the demo (must fail), reverts, rebuilds and runs the demo again (must pass). Prints a one-line verdict.
WT=$1
cd "$WT" || exit 2
git checkout -q -- src 2>/dev/null
git apply --check seed/patch.diff || { echo "VERDICT $WT patch-does-not-apply"; exit 1; }
git apply seed/patch.diff
[ -d _build ] || meson setup _build >/dev/null 2>&1
timeout 1200 meson compile -C _build >/tmp/$(basename $WT).build.log 2>&1 || { echo "VERDICT $WT build-fails-with-patch"; git checkout -q -- src; exit 1; }
timeout 900 meson test -C _build >/tmp/$(basename $WT).test.log 2>&1; T=$?
OKT=$(grep -E "^Ok:" /tmp/$(basename $WT).test.log | awk '{print $2}')
FAILT=$(grep -E "^Fail:" /tmp/$(basename $WT).test.log | awk '{print $2}')
timeout 300 sh seed/build_demo.sh >/tmp/$(basename $WT).demo_patched.log 2>&1; D1=$?
git checkout -q -- src
timeout 1200 meson compile -C _build >/dev/null 2>&1
timeout 300 sh seed/build_demo.sh >/tmp/$(basename $WT).demo_pristine.log 2>&1; D2=$?
echo "VERDICT $WT tests_ok=$OKT tests_fail=$FAILT demo_with_patch_rc=$D1 demo_pristine_rc=$D2"
