#!/usr/bin/env python3
"""usage: tools/store_seed.py <worktree> <pid> <dirname> <json with needs/detected_by/asis/note>
Copies a confirmed seeded change from a scratch worktree into /verif/seeded/<dirname>/ and writes meta.json."""
import json, os, re, shutil, sys
wt, pid, dirname, meta_in = sys.argv[1], sys.argv[2], sys.argv[3], json.loads(sys.argv[4])
src, dst = os.path.join(wt, "seed"), os.path.join("/verif/seeded", dirname)
os.makedirs(dst, exist_ok=True)
for fn in os.listdir(src):
    if fn in ("patch.diff", "README.md") or fn.endswith((".cpp", ".h")):
        shutil.copy(os.path.join(src, fn), os.path.join(dst, fn))
b = open(os.path.join(src, "build_demo.sh")).read().replace(wt, "${OOMD_TREE:-%s}" % wt)
open(os.path.join(dst, "build_demo.sh"), "w").write(b)
os.chmod(os.path.join(dst, "build_demo.sh"), 0o755)
files = sorted(set(re.findall(r"^\+\+\+ b/(\S+)", open(os.path.join(dst, "patch.diff")).read(), re.M)))
meta = {"property": pid,
        "origin": "independent sub-agent given only the property text (plus, for later waves, the site an earlier change had used, to avoid) and its own scratch worktree of /repo (no access to /verif)",
        "needs_to_manifest": meta_in["needs"], "files_changed": files,
        "confirmed_by_me": {"command": "tools/verify_seed.sh " + wt, "with_patch": "builds; meson test 12/12 ok; demo exit non-zero", "without_patch": "demo exit 0"},
        "checks_run": "tools/try_seed_wt.sh %s <ids> (patch applied in the scratch worktree, ./check <id> --root <worktree>); equivalent through /repo: tools/try_seed.sh /verif/seeded/%s/patch.diff <ids>" % (wt, dirname),
        "detected_by": meta_in["detected_by"], "detected_without_changes_to_the_checks": meta_in["asis"], "note": meta_in["note"]}
json.dump(meta, open(os.path.join(dst, "meta.json"), "w"), indent=1)
print("stored", dst)
