#!/usr/bin/env python3
"""usage: tools/refactor_wave.py <first-number>  -- creates scratch worktrees /tmp/refac-R<n> of /repo and writes the prompt files
/tmp/refac-R<n>.prompt.txt for a wave of behaviour-preserving refactors (negative controls).  Agents see only that prompt."""
import subprocess, sys
first = int(sys.argv[1])
groups = [
 ["src/oomd/engine/Ruleset.cpp", "src/oomd/engine/Ruleset.h"],
 ["src/oomd/plugins/BaseKillPlugin.cpp", "src/oomd/plugins/BaseKillPlugin.h"],
 ["src/oomd/engine/Engine.cpp", "src/oomd/engine/DetectorGroup.cpp", "src/oomd/engine/PrekillHook.h", "src/oomd/Oomd.cpp"],
 ["src/oomd/CgroupContext.cpp", "src/oomd/CgroupContext.h"],
 ["src/oomd/util/Fs.cpp"],
 ["src/oomd/Stats.cpp", "src/oomd/StatsClient.cpp"],
 ["src/oomd/Log.cpp", "src/oomd/Log.h"],
 ["src/oomd/plugins/Senpai.cpp"],
 ["src/oomd/dropin/FsDropInService.cpp", "src/oomd/dropin/DropInServiceAdaptor.cpp"],
 ["src/oomd/config/ConfigCompiler.cpp", "src/oomd/config/JsonConfigParser.cpp", "src/oomd/util/PluginArgParser.cpp", "src/oomd/util/Util.cpp"],
 ["src/oomd/plugins/PressureAbove.cpp", "src/oomd/plugins/PressureRisingBeyond.cpp", "src/oomd/plugins/MemoryAbove.cpp", "src/oomd/plugins/MemoryReclaim.cpp", "src/oomd/plugins/SwapFree.cpp", "src/oomd/plugins/Exists.cpp", "src/oomd/plugins/NrDyingDescendants.cpp"],
 ["src/oomd/OomdContext.cpp", "src/oomd/include/CgroupPath.cpp", "src/oomd/plugins/KillMemoryGrowth-inl.h", "src/oomd/plugins/KillPgScan-inl.h", "src/oomd/plugins/KillPressure-inl.h", "src/oomd/plugins/KillSwapUsage-inl.h", "src/oomd/plugins/KillIOCost-inl.h"],
]
EXTRA = ""
if first >= 61:
    EXTRA = """  9. interface-level reshaping between INTERNAL functions (private members, file-static functions, lambdas): a parameter passed by value <-> by const reference; a bool result + out-parameter <-> a std::optional result; one function split into two that are called in sequence, or two private functions that are always called together merged into one; a file-static free function turned into a private static member or the reverse; a lambda turned into a named private member function or the reverse; a default argument made explicit at all call sites; a private data member given an in-class initialiser instead of the constructor initialiser (same value); definitions reordered within the file;
 10. error-handling respellings with identical outcomes: `if (!x) return err; use(*x);` <-> `if (x) { use(*x); } else { return err; }`; an early `return` hoisted in front of unrelated pure computations; the same error value built in one place and returned from several; a repeated `OLOG << ...` sequence moved into a helper that is called at the same points (same text, same order).
"""
for k, files in enumerate(groups):
    r = "R%d" % (first + k)
    wt = '/tmp/refac-%s' % r
    subprocess.run(['git', '-C', '/repo', 'worktree', 'add', '-q', '--detach', wt, 'HEAD'], check=True)
    EX_ = EXTRA
    prompt = f"""You are helping test a static-analysis effort for the open-source project facebookincubator/oomd (a userspace Linux OOM killer, C++20, meson build). You have your own scratch git worktree of the project at {wt} . Work ONLY inside {wt} (never touch /repo or /verif, and do not read anything under /verif).

YOUR TASK: write a BEHAVIOUR-PRESERVING change to these files, the kind a maintainer would merge as "no functional change":
  {chr(10).join('  ' + f for f in files)}

Make 8-14 separate edits spread over as many different functions as you can. This round is about the edits that real maintenance produces. Use as many of these kinds as the code allows:
  1. defensive / tidy rewrites that cannot change behaviour: an `else` after a `return` removed (or added); a redundant-looking check kept but respelled; De Morgan on a condition; `!(a == b)` <-> `a != b`; comparison operands swapped with the operator mirrored; a nested `if` merged into `&&` (or split);
  2. early-return / guard-clause refactors of a whole function body; a `switch` turned into an if-chain or the reverse; a ternary turned into if/else or the reverse; a `while` loop turned into `for` or the reverse; an index loop turned into a range-for or iterators or the reverse;
  3. a block extracted into a new helper (private member, file-static function or local lambda) - also one that is called from two places, or one that returns a struct / std::pair / std::optional of several results; or a one-caller helper inlined;
  4. a scope guard (OOMD_SCOPE_EXIT) replaced by explicit code on every exit path, or explicit clean-up replaced by a scope guard - only where every exit path is covered identically;
  5. locals: named local introduced for a repeated sub-expression that is pure; a local's declaration moved closer to its use; two declarations merged with structured bindings; a `const&` binding instead of a copy where lifetime allows; `auto` <-> explicit types;
  6. standard-library respellings: `find(...) != end()` <-> `count(...)` <-> `contains(...)`; `emplace` <-> `insert`/`try_emplace` where the key is known absent or semantics are identical; `std::string` building with `+` vs `append` vs a stream when the resulting text is identical; `size() == 0` <-> `empty()`; `std::min/max` vs a conditional; erase-remove <-> `std::erase_if`; hand loop <-> `std::any_of`/`find_if`/`accumulate`/`for_each` (do NOT use <ranges>/std::views - the analysis front end cannot parse them);
  7. constants: a magic number given a `constexpr` name (same type, same value); a duplicated string literal given a name; `static_cast` made explicit where the implicit conversion was the same;
  8. renames of locals, parameters and private helpers (NOT public API, NOT config argument strings, NOT log/kmsg text); comments.
{EX_}Every edit must keep ALL observable behaviour identical: same system calls in the same order with the same arguments, same files read/written, same log and kmsg text, same return values, same exceptions, same locking, same evaluation order where it is observable, same handling of every error path, same integer widths and signedness. Do not fix bugs. Do not change what is copied vs referenced where that could be observed. Do not reorder operations on shared state. If you are not certain an edit preserves behaviour, do not make it.

How to build and test (offline sandbox, no network, everything needed is installed):
  cd {wt} && meson setup _build >/dev/null && meson compile -C _build && meson test -C _build
(the pristine tree passes 12/12 meson tests; it must still pass 12/12 with your change, without touching any test file).

Deliverables, under {wt}/seed/ :
  patch.diff  - `git diff` of your source change (must apply with `git apply` to the pristine worktree HEAD)
  README.md   - a numbered list of the edits; for EACH edit one or two sentences on why behaviour is preserved (what could have been observable and why it is not)
Before finishing: confirm the build and 12/12 tests with the patch applied, then leave the worktree with the patch REVERTED (`git checkout -- src`) and keep seed/. Keep the final answer short."""
    open('/tmp/refac-%s.prompt.txt' % r, 'w').write(prompt)
    print(wt)
