#!/usr/bin/env python3
"""usage: tools/seed_wave.py <N> [ids...]  -- creates scratch worktrees /tmp/seed<N>-<id> of /repo and writes the prompt
files /tmp/seed<N>-<id>.prompt.txt (property text + build instructions + the sites earlier waves used, to avoid + a style
hint).  The sub-agents are given only that prompt file."""
import json, subprocess, sys
N = int(sys.argv[1]); ids = sys.argv[2:]
sites = json.load(open('/verif/tools/seed_sites.json'))
styles = [
 "a performance 'optimisation': a cache / memoised value / fast path / early exit / batching that is correct in the common case and stale or wrong in a rare one",
 "a 'robustness' or 'hardening' change: extra validation, a retry, a clamp, a default, a sanity check whose boundary or fallback is subtly wrong",
 "two cooperating sites that each look fine alone (e.g. a helper whose contract changed slightly and one caller that relies on the old contract)",
 "a change in a declaration or type (a field, a default argument, a container type, signedness, a constant, const/reference/value, static/thread_local) rather than in control flow",
 "an ordering or lifetime change: two statements swapped, something done before instead of after a call, a lock/scope/guard/object that ends earlier or later, a move/copy difference",
 "an error-path change: what happens when a read/parse/write fails or a value is absent - a default standing in, an early return added or removed, an error swallowed or converted",
 "a generalisation: the code is extended to handle one more case / input form / option, and the extension changes the behaviour of an existing case in a corner",
]
props = {}
for l in open('/verif/properties.jsonl'):
    p = json.loads(l); props[p['id']] = p
for n, pid in enumerate(sorted(sites)):
    if ids and pid not in ids: continue
    wt = '/tmp/seed%d-%s' % (N, pid)
    subprocess.run(['git', '-C', '/repo', 'worktree', 'add', '-q', '--detach', wt, 'HEAD'], check=True)
    p = props[pid]
    open('/tmp/seed-%s.prop.txt' % pid, 'w').write("Property %s: %s\n\nStatement: %s\n\nQuantification: %s\n" % (pid, p['title'], p['statement'], p['quantifier']['text']))
    out = subprocess.run(['python3', '/verif/tools/seed_prompt.py', pid], capture_output=True, text=True).stdout
    out = out.replace('/tmp/seed-%s' % pid, wt)
    av = sites[pid]
    out += ("\n\nIMPORTANT: earlier changes for this property already targeted " + ", ".join("(%d) %s" % (i + 1, a) for i, a in enumerate(av)) +
            ". Choose a DIFFERENT clause of the property and a different function/site from all of them - ideally in another file. Re-read the statement sentence by sentence and pick a clause none of them touches.\n\n"
            "STYLE for your change: %s. Keep it small and plausible - something that would pass a quick code review.\n" % styles[(n + N) % len(styles)])
    open('/tmp/seed%d-%s.prompt.txt' % (N, pid), 'w').write(out)
    print(wt)
