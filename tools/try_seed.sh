#!/bin/sh
# usage: tools/try_seed.sh <patch.diff> [pids...]  -- applies the patch to /repo, runs the checks, reverts.
P=$1; shift
PIDS=${@:-"C01 C02 C03 C04 C05 C06 C07 C11 C13 C17"}
cd /repo && git apply --check "$P" || { echo "patch does not apply to /repo"; exit 2; }
git -C /repo apply "$P"
cd /verif
for p in $PIDS; do
  out=$(./check $p --no-evidence 2>&1); rc=$?
  echo "== $p rc=$rc"; echo "$out" | grep -E "^oomd/|ANALYSIS-BROKEN|VIOLATION" | head -8
done
git -C /repo checkout -- .
git -C /repo status --short | head -3
