// oomd_facts: libTooling fact extractor for the /verif static-analysis framework.
//
// For every function definition whose body is spelled in the given source root
// (default /repo/src) -- including header methods, lambdas and template
// instantiations, excluding dependent patterns -- emit:
//   * identity (USR, qualified name, class, virtual/overrides, params)
//   * the statement/expression tree as a table of nodes (ids, kinds, kids)
//   * the clang CFG (all sub-expressions as elements, implicit/temporary
//     destructors, initialisers) as blocks of node ids with labelled edges
// plus class records (bases, fields, methods) and static-storage variables.
//
// Usage: oomd_facts <file.cpp> --out=<file.json> [--root=/repo/src] -- <flags>

#include "clang/AST/ASTConsumer.h"
#include "clang/AST/ASTContext.h"
#include "clang/AST/DeclCXX.h"
#include "clang/AST/DeclTemplate.h"
#include "clang/AST/ExprCXX.h"
#include "clang/AST/RecursiveASTVisitor.h"
#include "clang/AST/StmtCXX.h"
#include "clang/Analysis/CFG.h"
#include "clang/Frontend/CompilerInstance.h"
#include "clang/Frontend/FrontendAction.h"
#include "clang/Index/USRGeneration.h"
#include "clang/Lex/Lexer.h"
#include "clang/Tooling/CommonOptionsParser.h"
#include "clang/Tooling/Tooling.h"
#include "llvm/Support/CommandLine.h"
#include "llvm/Support/raw_ostream.h"

#include <map>
#include <set>
#include <string>
#include <vector>

using namespace clang;
using namespace clang::tooling;

static llvm::cl::OptionCategory Cat("oomd_facts options");
static llvm::cl::opt<std::string> OutPath("out", llvm::cl::desc("output json"),
                                          llvm::cl::Required,
                                          llvm::cl::cat(Cat));
static llvm::cl::opt<std::string> RootDir("root",
                                          llvm::cl::desc("source root"),
                                          llvm::cl::init("/repo/src"),
                                          llvm::cl::cat(Cat));

namespace {

// ---------------------------------------------------------------- JSON writer
std::string jesc(llvm::StringRef s) {
  std::string o;
  o.reserve(s.size() + 2);
  for (unsigned char c : s) {
    switch (c) {
      case '"': o += "\\\""; break;
      case '\\': o += "\\\\"; break;
      case '\n': o += "\\n"; break;
      case '\r': o += "\\r"; break;
      case '\t': o += "\\t"; break;
      default:
        if (c < 0x20 || c >= 0x7f) {
          char b[8];
          snprintf(b, sizeof b, "\\u%04x", c);
          o += b;
        } else {
          o += (char)c;
        }
    }
  }
  return o;
}

struct JObj {
  std::string s = "{";
  bool first = true;
  void key(const char* k) {
    if (!first) s += ",";
    first = false;
    s += "\"";
    s += k;
    s += "\":";
  }
  JObj& str(const char* k, llvm::StringRef v) {
    key(k);
    s += "\"" + jesc(v) + "\"";
    return *this;
  }
  JObj& num(const char* k, long long v) {
    key(k);
    s += std::to_string(v);
    return *this;
  }
  JObj& boolean(const char* k, bool v) {
    key(k);
    s += v ? "true" : "false";
    return *this;
  }
  JObj& raw(const char* k, const std::string& v) {
    key(k);
    s += v;
    return *this;
  }
  JObj& ids(const char* k, const std::vector<int>& v) {
    key(k);
    s += "[";
    for (size_t i = 0; i < v.size(); i++) {
      if (i) s += ",";
      s += std::to_string(v[i]);
    }
    s += "]";
    return *this;
  }
  JObj& strs(const char* k, const std::vector<std::string>& v) {
    key(k);
    s += "[";
    for (size_t i = 0; i < v.size(); i++) {
      if (i) s += ",";
      s += "\"" + jesc(v[i]) + "\"";
    }
    s += "]";
    return *this;
  }
  std::string done() { return s + "}"; }
};

std::string jarr(const std::vector<std::string>& v) {
  std::string s = "[";
  for (size_t i = 0; i < v.size(); i++) {
    if (i) s += ",";
    s += v[i];
  }
  return s + "]";
}

// ---------------------------------------------------------------- helpers
struct Ctx {
  ASTContext* AC;
  SourceManager* SM;
  PrintingPolicy PP;
  std::string root;
  Ctx(ASTContext& ac, std::string r)
      : AC(&ac), SM(&ac.getSourceManager()), PP(ac.getLangOpts()),
        root(std::move(r)) {
    PP.SuppressTagKeyword = true;
    PP.Bool = true;
    PP.SuppressUnwrittenScope = true;
    PP.FullyQualifiedName = true;
    PP.TerseOutput = true;
  }
  std::string fileOf(SourceLocation L) const {
    if (L.isInvalid()) return "";
    SourceLocation E = SM->getExpansionLoc(L);
    llvm::StringRef f = SM->getFilename(E);
    if (f.empty()) return "";
    llvm::SmallString<256> p(f);
    SM->getFileManager().makeAbsolutePath(p);
    llvm::sys::path::remove_dots(p, true);
    return std::string(p.str());
  }
  bool inRoot(SourceLocation L) const {
    std::string f = fileOf(L);
    return f.size() > root.size() && f.compare(0, root.size(), root) == 0;
  }
  // path relative to the source root ("" when outside)
  std::string relOf(SourceLocation L) const {
    std::string f = fileOf(L);
    if (f.size() > root.size() && f.compare(0, root.size(), root) == 0) {
      size_t i = root.size();
      while (i < f.size() && f[i] == '/') i++;
      return f.substr(i);
    }
    return "";
  }
  unsigned lineOf(SourceLocation L) const {
    if (L.isInvalid()) return 0;
    return SM->getExpansionLineNumber(L);
  }
  unsigned colOf(SourceLocation L) const {
    if (L.isInvalid()) return 0;
    return SM->getExpansionColumnNumber(L);
  }
  std::string macroOf(SourceLocation L) const {
    std::string name;
    int guard = 0;
    while (L.isValid() && L.isMacroID() && guard++ < 64) {
      if (!SM->isMacroArgExpansion(L))
        name = Lexer::getImmediateMacroName(L, *SM, AC->getLangOpts()).str();
      L = SM->getImmediateMacroCallerLoc(L);
    }
    return name;
  }
  std::string usr(const Decl* D) const {
    if (!D) return "";
    llvm::SmallString<128> buf;
    if (index::generateUSRForDecl(D, buf)) return "";
    std::string u(buf.str());
    // closures inside instantiated templates get USRs without a position: two
    // lambdas with the same signature in one function would collide
    const DeclContext* DC = dyn_cast<DeclContext>(D) ? cast<DeclContext>(D) : D->getDeclContext();
    const CXXRecordDecl* RD = nullptr;
    if (auto* M = dyn_cast<CXXMethodDecl>(D)) RD = M->getParent();
    else if (auto* R = dyn_cast<CXXRecordDecl>(D)) RD = R;
    (void)DC;
    if (RD && RD->isLambda()) {
      u += "#L" + std::to_string(lineOf(RD->getLocation())) + ":" + std::to_string(colOf(RD->getLocation()));
    }
    return u;
  }
  std::string qname(const NamedDecl* D) const {
    if (!D) return "";
    std::string s;
    llvm::raw_string_ostream os(s);
    D->printQualifiedName(os, PP);
    os.flush();
    // lambdas print as "(anonymous class)::operator()" -- keep as is
    return s;
  }
  std::string tstr(QualType T) const {
    if (T.isNull()) return "";
    return T.getAsString(PP);
  }
  // scalar width tag: i32/u64/f32/f64/b/enum:<n> ; "" otherwise
  std::string tw(QualType T) const {
    if (T.isNull()) return "";
    QualType C = T.getCanonicalType().getNonReferenceType().getUnqualifiedType();
    if (C->isDependentType()) return "";
    if (C->isBooleanType()) return "b";
    if (C->isEnumeralType()) {
      return "e" + std::to_string(AC->getTypeSize(C));
    }
    if (C->isIntegerType()) {
      return std::string(C->isSignedIntegerType() ? "i" : "u") +
          std::to_string(AC->getTypeSize(C));
    }
    if (C->isRealFloatingType()) return "f" + std::to_string(AC->getTypeSize(C));
    if (C->isPointerType()) return "p";
    return "";
  }
};

const Expr* stripE(const Expr* E) {
  // strip wrappers that carry no meaning for the rules
  while (E) {
    if (auto* P = dyn_cast<ParenExpr>(E)) { E = P->getSubExpr(); continue; }
    if (auto* P = dyn_cast<ExprWithCleanups>(E)) { E = P->getSubExpr(); continue; }
    if (auto* P = dyn_cast<MaterializeTemporaryExpr>(E)) { E = P->getSubExpr(); continue; }
    if (auto* P = dyn_cast<CXXBindTemporaryExpr>(E)) { E = P->getSubExpr(); continue; }
    if (auto* P = dyn_cast<ConstantExpr>(E)) { E = P->getSubExpr(); continue; }
    if (auto* P = dyn_cast<FullExpr>(E)) { E = P->getSubExpr(); continue; }
    if (auto* P = dyn_cast<SubstNonTypeTemplateParmExpr>(E)) { E = P->getReplacement(); continue; }
    if (auto* P = dyn_cast<CXXDefaultArgExpr>(E)) { E = P->getExpr(); continue; }
    if (auto* P = dyn_cast<CXXDefaultInitExpr>(E)) { E = P->getExpr(); continue; }
    if (auto* P = dyn_cast<ImplicitCastExpr>(E)) {
      switch (P->getCastKind()) {
        case CK_IntegralCast:
        case CK_FloatingToIntegral:
        case CK_IntegralToFloating:
        case CK_FloatingCast:
        case CK_IntegralToBoolean:
        case CK_FloatingToBoolean:
        case CK_UserDefinedConversion:
        case CK_ConstructorConversion:
          return E;  // notable: kept as a node
        default:
          E = P->getSubExpr();
          continue;
      }
    }
    break;
  }
  return E;
}

// ---------------------------------------------------------------- per-function
struct FnEmitter {
  Ctx& C;
  const Decl* FD;
  std::vector<std::string> nodes;          // serialized nodes, index = id
  std::map<const Stmt*, int> idOf;         // stripped stmt -> id
  std::map<const Decl*, std::string> declIds;
  std::vector<std::string> tries;
  std::vector<int> tryStack;
  std::map<const CXXTryStmt*, int> tryIds;

  FnEmitter(Ctx& c, const Decl* fd) : C(c), FD(fd) {}

  std::string declId(const ValueDecl* D) {
    auto it = declIds.find(D);
    if (it != declIds.end()) return it->second;
    std::string s = D->getNameAsString();
    if (s.empty()) s = "_anon";
    s += "@" + std::to_string(C.lineOf(D->getLocation())) + ":" +
        std::to_string(C.colOf(D->getLocation()));
    declIds[D] = s;
    return s;
  }

  int lookup(const Stmt* S) {
    if (!S) return -1;
    if (auto* E = dyn_cast<Expr>(S)) S = stripE(E);
    auto it = idOf.find(S);
    return it == idOf.end() ? -1 : it->second;
  }

  int reserve(const Stmt* S) {
    int id = (int)nodes.size();
    nodes.emplace_back();
    idOf[S] = id;
    return id;
  }

  void base(JObj& o, int id, const char* k, const Stmt* S) {
    o.num("id", id).str("k", k);
    o.num("line", C.lineOf(S->getBeginLoc()));
    o.num("col", C.colOf(S->getBeginLoc()));
    if (S->getBeginLoc().isMacroID()) {
      std::string m = C.macroOf(S->getBeginLoc());
      if (!m.empty()) o.str("mac", m);
    }
    if (!tryStack.empty()) o.num("try", tryStack.back());
    if (auto* E = dyn_cast<Expr>(S)) {
      o.str("type", C.tstr(E->getType()));
      std::string w = C.tw(E->getType());
      if (!w.empty()) o.str("tw", w);
    }
  }

  std::vector<int> kidsOf(const Stmt* S) {
    std::vector<int> v;
    for (const Stmt* K : S->children()) {
      if (!K) continue;
      int id = visit(K);
      if (id >= 0) v.push_back(id);
    }
    return v;
  }

  void calleeInfo(JObj& o, const FunctionDecl* Callee) {
    if (!Callee) return;
    o.str("callee", C.qname(Callee));
    o.str("cusr", C.usr(Callee));
    o.str("cname", Callee->getNameAsString());
    if (Callee->isNoReturn()) o.boolean("noreturn", true);
    if (auto* M = dyn_cast<CXXMethodDecl>(Callee)) {
      if (M->getParent()) o.str("ccls", C.qname(M->getParent()));
      if (M->isConst()) o.boolean("cconst", true);
      if (M->isStatic()) o.boolean("cstatic", true);
    }
    // primary template / pattern name, for instantiations
    if (const FunctionDecl* P = Callee->getTemplateInstantiationPattern()) {
      o.str("cpat", C.usr(P));
    }
    // parameters bound by non-const lvalue reference (callee may write them)
    std::vector<int> refs;
    std::vector<std::string> ptypes;
    // forwarding references (T&& / Args&&... of the pattern) collapse to T& when
    // given an lvalue; they are perfect-forwarding plumbing, not out-parameters
    const FunctionDecl* Pat = Callee->getTemplateInstantiationPattern();
    if (!Pat) if (auto* PT = Callee->getPrimaryTemplate()) Pat = PT->getTemplatedDecl();
    auto isFwd = [&](unsigned i) -> bool {
      if (!Pat || Pat->getNumParams() == 0) return false;
      unsigned j = i < Pat->getNumParams() ? i : Pat->getNumParams() - 1;
      QualType T = Pat->getParamDecl(j)->getType();
      if (auto* PE = T->getAs<PackExpansionType>()) T = PE->getPattern();
      else if (i >= Pat->getNumParams()) return false;
      if (!T->isRValueReferenceType()) return false;
      QualType Pointee = T->getPointeeType();
      return Pointee->getAs<TemplateTypeParmType>() != nullptr && !Pointee.isConstQualified();
    };
    for (unsigned i = 0; i < Callee->getNumParams(); i++) {
      QualType PT = Callee->getParamDecl(i)->getType();
      ptypes.push_back(C.tstr(PT));
      if (PT->isLValueReferenceType() && !PT->getPointeeType().isConstQualified() && !isFwd(i))
        refs.push_back((int)i);
    }
    if (!refs.empty()) o.ids("refparams", refs);
    o.strs("ptypes", ptypes);
  }

  int visit(const Stmt* S0) {
    if (!S0) return -1;
    const Stmt* S = S0;
    if (auto* E = dyn_cast<Expr>(S0)) S = stripE(E);
    if (!S) return -1;
    auto it = idOf.find(S);
    if (it != idOf.end()) return it->second;
    int id = reserve(S);
    JObj o;

    if (auto* CE = dyn_cast<CallExpr>(S)) {
      base(o, id, "call", S);
      const FunctionDecl* Callee = CE->getDirectCallee();
      calleeInfo(o, Callee);
      int recv = -1;
      std::vector<int> args;
      if (auto* MC = dyn_cast<CXXMemberCallExpr>(CE)) {
        const Expr* Obj = MC->getImplicitObjectArgument();
        recv = visit(Obj);
        o.boolean("member", true);
        const CXXMethodDecl* MD = MC->getMethodDecl();
        bool virt = false;
        if (MD && MD->isVirtual()) {
          virt = true;
          if (auto* ME = dyn_cast<MemberExpr>(MC->getCallee()->IgnoreParens()))
            if (ME->hasQualifier()) virt = false;
        }
        if (virt) o.boolean("virt", true);
        if (Obj) {
          QualType OT = Obj->getType();
          if (OT->isPointerType()) OT = OT->getPointeeType();
          o.str("rtype", C.tstr(OT.getUnqualifiedType()));
        }
        for (const Expr* A : MC->arguments()) args.push_back(visit(A));
      } else if (auto* OC = dyn_cast<CXXOperatorCallExpr>(CE)) {
        o.str("op", getOperatorSpelling(OC->getOperator()));
        bool isMember = Callee && isa<CXXMethodDecl>(Callee);
        unsigned i = 0;
        for (const Expr* A : OC->arguments()) {
          int a = visit(A);
          if (i == 0 && isMember) {
            recv = a;
            o.boolean("member", true);
            o.str("rtype", C.tstr(A->getType().getUnqualifiedType()));
          } else {
            args.push_back(a);
          }
          i++;
        }
      } else {
        for (const Expr* A : CE->arguments()) args.push_back(visit(A));
      }
      if (!Callee) {
        int f = visit(CE->getCallee());
        o.num("fnexpr", f);
      }
      if (recv >= 0) o.num("recv", recv);
      o.ids("args", args);
    } else if (auto* CE = dyn_cast<CXXConstructExpr>(S)) {
      base(o, id, "construct", S);
      const CXXConstructorDecl* CD = CE->getConstructor();
      calleeInfo(o, CD);
      if (CE->isElidable()) o.boolean("elidable", true);
      if (CD && CD->isCopyOrMoveConstructor()) o.boolean("copymove", true);
      std::vector<int> args;
      for (const Expr* A : CE->arguments()) args.push_back(visit(A));
      o.ids("args", args);
    } else if (auto* ME = dyn_cast<MemberExpr>(S)) {
      base(o, id, "member", S);
      const ValueDecl* D = ME->getMemberDecl();
      o.str("name", D->getNameAsString());
      o.str("qname", C.qname(D));
      o.str("dk", isa<FieldDecl>(D) ? "field"
                 : isa<CXXMethodDecl>(D) ? "method"
                 : isa<VarDecl>(D) ? "static" : "other");
      if (ME->isArrow()) o.boolean("arrow", true);
      o.num("base", visit(ME->getBase()));
    } else if (auto* DR = dyn_cast<DeclRefExpr>(S)) {
      base(o, id, "ref", S);
      const ValueDecl* D = DR->getDecl();
      o.str("name", D->getNameAsString());
      const char* dk = "other";
      if (auto* PV = dyn_cast<ParmVarDecl>(D)) {
        dk = "param";
        o.num("pidx", PV->getFunctionScopeIndex());
        o.str("decl", declId(D));
        if (DR->refersToEnclosingVariableOrCapture()) o.boolean("captured", true);
      } else if (auto* VD = dyn_cast<VarDecl>(D)) {
        if (VD->isLocalVarDecl()) {
          dk = VD->isStaticLocal() ? "static_local" : "local";
          o.str("decl", declId(D));
          if (VD->isStaticLocal()) o.str("qname", C.qname(D));
          // a local `constexpr int kFields = 8;` / `const int n = 8;` with a constant initialiser: its value
          if (!DR->isValueDependent() && VD->getType().isConstQualified() && VD->getType()->isIntegralOrEnumerationType() &&
              !VD->getType()->isBooleanType()) {
            Expr::EvalResult R;
            if (DR->EvaluateAsInt(R, *C.AC, Expr::SE_NoSideEffects)) o.num("cval", R.Val.getInt().getExtValue());
          }
        } else {
          dk = "global";
          o.str("qname", C.qname(D));
          // a constexpr / const integral global with a constant initialiser: its value
          if (!DR->isValueDependent() && VD->getType().isConstQualified() && VD->getType()->isIntegralOrEnumerationType()) {
            Expr::EvalResult R;
            if (DR->EvaluateAsInt(R, *C.AC, Expr::SE_NoSideEffects)) o.num("cval", R.Val.getInt().getExtValue());
          }
        }
        if (DR->refersToEnclosingVariableOrCapture()) o.boolean("captured", true);
      } else if (auto* EC = dyn_cast<EnumConstantDecl>(D)) {
        dk = "enumconst";
        o.str("qname", C.qname(D));
        o.num("val", EC->getInitVal().getExtValue());
      } else if (isa<FunctionDecl>(D)) {
        dk = "func";
        o.str("qname", C.qname(D));
        o.str("usr", C.usr(D));
      } else if (isa<BindingDecl>(D)) {
        dk = "binding";
        o.str("decl", declId(D));
      } else if (isa<FieldDecl>(D)) {
        dk = "field";
        o.str("qname", C.qname(D));
      }
      o.str("dk", dk);
    } else if (isa<CXXThisExpr>(S)) {
      base(o, id, "this", S);
    } else if (auto* L = dyn_cast<IntegerLiteral>(S)) {
      base(o, id, "lit", S);
      o.str("lk", "int");
      llvm::SmallString<32> v;
      L->getValue().toString(v, 10, L->getType()->isSignedIntegerType());
      o.str("v", v);
    } else if (auto* L = dyn_cast<CXXBoolLiteralExpr>(S)) {
      base(o, id, "lit", S);
      o.str("lk", "bool");
      o.str("v", L->getValue() ? "true" : "false");
    } else if (auto* L = dyn_cast<StringLiteral>(S)) {
      base(o, id, "lit", S);
      o.str("lk", "str");
      o.str("v", L->isAscii() ? L->getString() : llvm::StringRef("<wide>"));
    } else if (auto* L = dyn_cast<FloatingLiteral>(S)) {
      base(o, id, "lit", S);
      o.str("lk", "float");
      llvm::SmallString<32> v;
      L->getValue().toString(v);
      o.str("v", v);
    } else if (auto* L = dyn_cast<CharacterLiteral>(S)) {
      base(o, id, "lit", S);
      o.str("lk", "char");
      o.str("v", std::to_string(L->getValue()));
    } else if (isa<CXXNullPtrLiteralExpr>(S) || isa<GNUNullExpr>(S)) {
      base(o, id, "lit", S);
      o.str("lk", "null");
      o.str("v", "nullptr");
    } else if (auto* B = dyn_cast<BinaryOperator>(S)) {
      base(o, id, "bin", S);
      o.str("op", B->getOpcodeStr());
      o.num("l", visit(B->getLHS()));
      o.num("r", visit(B->getRHS()));
      // an arithmetic expression over literals / constexpr names (1 << kBits): its value
      if (!B->isValueDependent() && !B->isAssignmentOp() && !B->isLogicalOp() && !B->isComparisonOp() &&
          B->getType()->isIntegralOrEnumerationType()) {
        Expr::EvalResult R;
        if (B->EvaluateAsInt(R, *C.AC, Expr::SE_NoSideEffects)) o.num("cval", R.Val.getInt().getExtValue());
      }
    } else if (auto* B = dyn_cast<CXXRewrittenBinaryOperator>(S)) {
      // C++20 rewritten comparison (a < b  ==>  (a <=> b) < 0): keep the
      // operator as written, with the operands as written
      base(o, id, "bin", S);
      auto DF = B->getDecomposedForm();
      o.str("op", BinaryOperator::getOpcodeStr(DF.Opcode));
      o.boolean("rewritten", true);
      o.num("l", visit(DF.LHS));
      o.num("r", visit(DF.RHS));
    } else if (auto* U = dyn_cast<UnaryOperator>(S)) {
      base(o, id, "un", S);
      o.str("op", UnaryOperator::getOpcodeStr(U->getOpcode()));
      if (U->isPostfix()) o.boolean("post", true);
      o.num("sub", visit(U->getSubExpr()));
    } else if (auto* Q = dyn_cast<ConditionalOperator>(S)) {
      base(o, id, "cond", S);
      o.num("c", visit(Q->getCond()));
      o.num("t", visit(Q->getTrueExpr()));
      o.num("f", visit(Q->getFalseExpr()));
    } else if (auto* CA = dyn_cast<CastExpr>(S)) {
      base(o, id, "cast", S);
      o.str("ck", CA->getCastKindName());
      o.boolean("implicit", isa<ImplicitCastExpr>(CA));
      o.str("from", C.tstr(CA->getSubExpr()->getType()));
      std::string fw = C.tw(CA->getSubExpr()->getType());
      if (!fw.empty()) o.str("fromtw", fw);
      o.num("sub", visit(CA->getSubExpr()));
    } else if (auto* AS = dyn_cast<ArraySubscriptExpr>(S)) {
      base(o, id, "subscript", S);
      o.num("base", visit(AS->getBase()));
      o.num("idx", visit(AS->getIdx()));
    } else if (auto* LE = dyn_cast<LambdaExpr>(S)) {
      base(o, id, "lambda", S);
      o.str("lusr", C.usr(LE->getCallOperator()));
      std::vector<std::string> caps;
      for (const LambdaCapture& cap : LE->captures()) {
        JObj c;
        if (cap.capturesThis()) {
          c.str("name", "this");
        } else if (cap.capturesVariable()) {
          c.str("name", cap.getCapturedVar()->getNameAsString());
          c.str("decl", declId(cap.getCapturedVar()));
        }
        c.boolean("byref", cap.getCaptureKind() == LCK_ByRef);
        caps.push_back(c.done());
      }
      o.raw("captures", jarr(caps));
      std::vector<int> inits;
      for (const Expr* I : LE->capture_inits())
        if (I) inits.push_back(visit(I));
      o.ids("inits", inits);
    } else if (auto* DS = dyn_cast<DeclStmt>(S)) {
      base(o, id, "decl", S);
      std::vector<std::string> vars;
      std::vector<int> kids;
      for (const Decl* D : DS->decls()) {
        if (auto* VD = dyn_cast<VarDecl>(D)) {
          JObj v;
          v.str("name", VD->getNameAsString());
          v.str("decl", declId(VD));
          v.str("type", C.tstr(VD->getType()));
          std::string w = C.tw(VD->getType());
          if (!w.empty()) v.str("tw", w);
          if (VD->isStaticLocal()) v.boolean("static", true);
          if (VD->getTLSKind() != VarDecl::TLS_None) v.boolean("tls", true);
          if (VD->getType().isConstQualified()) v.boolean("const", true);
          if (VD->getType()->isReferenceType()) v.boolean("isref", true);
          if (VD->hasInit()) {
            int i = visit(VD->getInit());
            v.num("init", i);
            kids.push_back(i);
          }
          if (auto* DD = dyn_cast<DecompositionDecl>(VD)) {
            std::vector<std::string> bs;
            for (auto* B : DD->bindings()) bs.push_back(declId(B));
            v.strs("bindings", bs);
          }
          vars.push_back(v.done());
        }
      }
      o.raw("vars", jarr(vars));
      o.ids("kids", kids);
    } else if (auto* R = dyn_cast<ReturnStmt>(S)) {
      base(o, id, "return", S);
      if (R->getRetValue()) o.num("val", visit(R->getRetValue()));
    } else if (auto* T = dyn_cast<CXXThrowExpr>(S)) {
      base(o, id, "throw", S);
      if (T->getSubExpr()) {
        o.num("sub", visit(T->getSubExpr()));
        o.str("ttype", C.tstr(T->getSubExpr()->getType().getUnqualifiedType()));
      }
    } else if (auto* I = dyn_cast<IfStmt>(S)) {
      base(o, id, "if", S);
      if (I->getInit()) o.num("init", visit(I->getInit()));
      if (I->getConditionVariableDeclStmt())
        o.num("condvar", visit(I->getConditionVariableDeclStmt()));
      o.num("c", visit(I->getCond()));
      o.num("then", visit(I->getThen()));
      if (I->getElse()) o.num("else", visit(I->getElse()));
    } else if (auto* W = dyn_cast<WhileStmt>(S)) {
      base(o, id, "while", S);
      o.num("c", visit(W->getCond()));
      o.num("body", visit(W->getBody()));
    } else if (auto* W = dyn_cast<DoStmt>(S)) {
      base(o, id, "do", S);
      o.num("body", visit(W->getBody()));
      o.num("c", visit(W->getCond()));
    } else if (auto* F = dyn_cast<ForStmt>(S)) {
      base(o, id, "for", S);
      if (F->getInit()) o.num("init", visit(F->getInit()));
      if (F->getCond()) o.num("c", visit(F->getCond()));
      if (F->getInc()) o.num("inc", visit(F->getInc()));
      o.num("body", visit(F->getBody()));
    } else if (auto* F = dyn_cast<CXXForRangeStmt>(S)) {
      base(o, id, "rangefor", S);
      if (F->getInit()) o.num("init", visit(F->getInit()));
      o.num("range", visit(F->getRangeInit()));
      if (F->getRangeStmt()) o.num("rangestmt", visit(F->getRangeStmt()));
      if (F->getBeginStmt()) o.num("beginstmt", visit(F->getBeginStmt()));
      if (F->getEndStmt()) o.num("endstmt", visit(F->getEndStmt()));
      if (F->getCond()) o.num("c", visit(F->getCond()));
      if (F->getInc()) o.num("inc", visit(F->getInc()));
      o.num("loopvar", visit(F->getLoopVarStmt()));
      o.num("body", visit(F->getBody()));
    } else if (auto* SW = dyn_cast<SwitchStmt>(S)) {
      base(o, id, "switch", S);
      if (SW->getInit()) o.num("init", visit(SW->getInit()));
      o.num("c", visit(SW->getCond()));
      o.num("body", visit(SW->getBody()));
      o.boolean("allenum", SW->isAllEnumCasesCovered());
    } else if (auto* CS = dyn_cast<CaseStmt>(S)) {
      base(o, id, "case", S);
      Expr::EvalResult R;
      if (CS->getLHS()->EvaluateAsInt(R, *C.AC))
        o.num("val", R.Val.getInt().getExtValue());
      o.num("lhs", visit(CS->getLHS()));
      o.num("sub", visit(CS->getSubStmt()));
    } else if (auto* DS2 = dyn_cast<DefaultStmt>(S)) {
      base(o, id, "default", S);
      o.num("sub", visit(DS2->getSubStmt()));
    } else if (auto* TS = dyn_cast<CXXTryStmt>(S)) {
      base(o, id, "try", S);
      int tid = (int)tries.size();
      tries.emplace_back();
      tryIds[TS] = tid;
      JObj t;
      t.num("id", tid);
      t.num("node", id);
      t.num("parent", tryStack.empty() ? -1 : tryStack.back());
      std::vector<std::string> hs;
      for (unsigned i = 0; i < TS->getNumHandlers(); i++) {
        const CXXCatchStmt* H = TS->getHandler(i);
        hs.push_back(H->getExceptionDecl()
                         ? C.tstr(H->getCaughtType().getNonReferenceType()
                                      .getUnqualifiedType())
                         : "...");
      }
      t.strs("handlers", hs);
      tryStack.push_back(tid);
      int body = visit(TS->getTryBlock());
      tryStack.pop_back();
      std::vector<int> hb;
      for (unsigned i = 0; i < TS->getNumHandlers(); i++)
        hb.push_back(visit(TS->getHandler(i)));
      t.num("body", body);
      t.ids("catches", hb);
      tries[tid] = t.done();
      o.num("tid", tid);
      o.num("body", body);
      o.ids("catches", hb);
    } else if (auto* CT = dyn_cast<CXXCatchStmt>(S)) {
      base(o, id, "catch", S);
      o.str("ctype", CT->getExceptionDecl()
                ? C.tstr(CT->getCaughtType().getNonReferenceType().getUnqualifiedType())
                : "...");
      o.num("body", visit(CT->getHandlerBlock()));
    } else if (isa<CompoundStmt>(S)) {
      base(o, id, "compound", S);
      o.ids("kids", kidsOf(S));
    } else if (isa<BreakStmt>(S)) {
      base(o, id, "break", S);
    } else if (isa<ContinueStmt>(S)) {
      base(o, id, "continue", S);
    } else if (auto* IL = dyn_cast<InitListExpr>(S)) {
      base(o, id, "initlist", S);
      if (IL->isSemanticForm() || !IL->getSemanticForm())
        o.ids("kids", kidsOf(S));
      else
        o.ids("kids", {visit(IL->getSemanticForm())});
    } else if (auto* NE = dyn_cast<CXXNewExpr>(S)) {
      base(o, id, "new", S);
      o.str("ntype", C.tstr(NE->getAllocatedType()));
      o.ids("kids", kidsOf(S));
    } else if (auto* TE = dyn_cast<UnaryExprOrTypeTraitExpr>(S)) {
      base(o, id, "sizeof", S);
      o.str("tk", TE->getKind() == UETT_SizeOf ? "sizeof" : "other");
      if (TE->isArgumentType()) o.str("arg", C.tstr(TE->getArgumentType()));
      Expr::EvalResult R;
      if (!TE->isValueDependent() && TE->EvaluateAsInt(R, *C.AC))
        o.num("val", R.Val.getInt().getExtValue());
      if (!TE->isArgumentType()) o.ids("kids", {visit(TE->getArgumentExpr())});
    } else {
      base(o, id, "other", S);
      o.str("cls", S->getStmtClassName());
      o.ids("kids", kidsOf(S));
    }
    nodes[id] = o.done();
    return id;
  }

  // ---- CFG
  std::string emitCFG(const Stmt* Body) {
    CFG::BuildOptions BO;
    BO.AddImplicitDtors = true;
    BO.AddTemporaryDtors = true;
    BO.AddInitializers = true;
    BO.AddEHEdges = false;
    BO.AddCXXDefaultInitExprInCtors = true;
    BO.setAllAlwaysAdd();
    std::unique_ptr<CFG> G = CFG::buildCFG(FD, const_cast<Stmt*>(Body), C.AC, BO);
    if (!G) return "null";
    std::vector<std::string> blocks;
    for (const CFGBlock* B : *G) {
      JObj b;
      b.num("id", B->getBlockID());
      if (B == &G->getEntry()) b.boolean("entry", true);
      if (B == &G->getExit()) b.boolean("exit", true);
      if (B->hasNoReturnElement()) b.boolean("noreturn", true);
      std::vector<std::string> elems;
      int last = -2;
      int lastStmtNode = -1;
      for (const CFGElement& E : *B) {
        JObj e;
        if (auto S = E.getAs<CFGStmt>()) {
          int n = lookup(S->getStmt());
          if (n < 0 || n == last) continue;
          last = n;
          lastStmtNode = n;
          e.num("n", n);
        } else if (auto I = E.getAs<CFGInitializer>()) {
          const CXXCtorInitializer* CI = I->getInitializer();
          e.str("init", CI->isAnyMemberInitializer() && CI->getAnyMember()
                            ? CI->getAnyMember()->getNameAsString()
                            : (CI->isBaseInitializer() ? "<base>" : "<delegating>"));
          if (CI->isAnyMemberInitializer() && CI->getAnyMember())
            e.str("field", C.qname(CI->getAnyMember()));
          int n = CI->getInit() ? visit(CI->getInit()) : -1;
          e.num("n", n);
          e.num("line", C.lineOf(CI->getSourceLocation()));
        } else if (auto D = E.getAs<CFGAutomaticObjDtor>()) {
          e.str("dtor", "auto");
          const VarDecl* VD = D->getVarDecl();
          e.str("var", VD->getNameAsString());
          e.str("decl", declId(VD));
          e.str("type", C.tstr(VD->getType()));
          if (const CXXDestructorDecl* DD = D->getDestructorDecl(*C.AC)) {
            e.str("dusr", C.usr(DD));
            e.str("dq", C.qname(DD));
          }
          if (D->getTriggerStmt())
            e.num("line", C.lineOf(D->getTriggerStmt()->getEndLoc()));
        } else if (auto T = E.getAs<CFGTemporaryDtor>()) {
          e.str("dtor", "temp");
          const CXXBindTemporaryExpr* BT = T->getBindTemporaryExpr();
          e.str("type", C.tstr(BT->getType()));
          e.num("n", lookup(BT));
          if (const CXXDestructorDecl* DD = T->getDestructorDecl(*C.AC)) {
            e.str("dusr", C.usr(DD));
            e.str("dq", C.qname(DD));
          }
          e.num("line", C.lineOf(BT->getEndLoc()));
        } else if (auto M = E.getAs<CFGMemberDtor>()) {
          e.str("dtor", "member");
          e.str("var", M->getFieldDecl()->getNameAsString());
          e.str("type", C.tstr(M->getFieldDecl()->getType()));
          if (const CXXDestructorDecl* DD = M->getDestructorDecl(*C.AC)) {
            e.str("dusr", C.usr(DD));
            e.str("dq", C.qname(DD));
          }
        } else if (auto Bs = E.getAs<CFGBaseDtor>()) {
          e.str("dtor", "base");
          e.str("type", C.tstr(Bs->getBaseSpecifier()->getType()));
          if (const CXXDestructorDecl* DD = Bs->getDestructorDecl(*C.AC)) {
            e.str("dusr", C.usr(DD));
            e.str("dq", C.qname(DD));
          }
        } else if (auto DD2 = E.getAs<CFGDeleteDtor>()) {
          e.str("dtor", "delete");
          if (const CXXDestructorDecl* DD = DD2->getDestructorDecl(*C.AC)) {
            e.str("dusr", C.usr(DD));
            e.str("dq", C.qname(DD));
          }
        } else {
          continue;
        }
        elems.push_back(e.done());
      }
      b.raw("elems", jarr(elems));
      // label (case/default) of this block
      if (const Stmt* L = B->getLabel()) {
        if (auto* CS = dyn_cast<CaseStmt>(L)) {
          JObj l;
          l.str("k", "case");
          Expr::EvalResult R;
          if (CS->getLHS()->EvaluateAsInt(R, *C.AC))
            l.num("val", R.Val.getInt().getExtValue());
          const Expr* LH = CS->getLHS()->IgnoreParenImpCasts();
          if (auto* CE2 = dyn_cast<ConstantExpr>(LH)) LH = CE2->getSubExpr()->IgnoreParenImpCasts();
          if (auto* DR = dyn_cast<DeclRefExpr>(LH))
            l.str("name", DR->getDecl()->getNameAsString());
          l.num("line", C.lineOf(CS->getBeginLoc()));
          b.raw("label", l.done());
        } else if (isa<DefaultStmt>(L)) {
          JObj l;
          l.str("k", "default");
          b.raw("label", l.done());
        } else if (isa<CXXCatchStmt>(L)) {
          JObj l;
          l.str("k", "catch");
          l.num("n", lookup(L));
          b.raw("label", l.done());
        }
      }
      // terminator
      if (const Stmt* T = B->getTerminatorStmt()) {
        JObj t;
        t.str("cls", T->getStmtClassName());
        t.num("stmt", lookup(T));
        t.num("line", C.lineOf(T->getBeginLoc()));
        const Stmt* Cond = B->getTerminatorCondition(true);
        if (Cond) {
          const Expr* E = dyn_cast<Expr>(Cond);
          // reduce to the operand evaluated last in this block
          bool selfLogical = false;
          if (auto* BT = dyn_cast<BinaryOperator>(T)) selfLogical = BT->isLogicalOp();
          (void)selfLogical;
          while (E) {
            const Expr* S2 = stripE(E);
            auto* BO2 = dyn_cast<BinaryOperator>(S2);
            if (BO2 && BO2->isLogicalOp() && BO2 != T) {
              E = BO2->getRHS();
              continue;
            }
            E = S2;
            break;
          }
          // The reduction is only right when this block really evaluated that
          // operand last (short-circuit wiring).  When the whole logical
          // expression was evaluated as a value (e.g. under ExprWithCleanups)
          // this block is a join and the condition is the full expression.
          int reduced = E ? lookup(E) : -1;
          int full = lookup(Cond);
          if (reduced >= 0 && reduced != full && reduced != lastStmtNode) reduced = full;
          if (reduced >= 0) t.num("cond", reduced);
          else if (full >= 0) t.num("cond", full);
        }
        if (auto* TS = dyn_cast<CXXTryStmt>(T)) {
          auto it = tryIds.find(TS);
          if (it != tryIds.end()) t.num("tid", it->second);
        }
        b.raw("term", t.done());
      }
      // successors (null = pruned/unreachable edge)
      std::vector<std::string> succ;
      for (auto I = B->succ_begin(); I != B->succ_end(); ++I) {
        const CFGBlock* SB = I->getReachableBlock();
        if (SB) {
          succ.push_back(std::to_string(SB->getBlockID()));
        } else if (const CFGBlock* PB = I->getPossiblyUnreachableBlock()) {
          succ.push_back("{\"pruned\":" + std::to_string(PB->getBlockID()) + "}");
        } else {
          succ.push_back("null");
        }
      }
      b.raw("succ", jarr(succ));
      if (const Stmt* LT = B->getLoopTarget()) b.num("looptarget", lookup(LT));
      blocks.push_back(b.done());
    }
    return jarr(blocks);
  }
};

// ---------------------------------------------------------------- visitor
class Visitor : public RecursiveASTVisitor<Visitor> {
 public:
  Ctx& C;
  std::vector<std::string> fns, classes, globals;
  std::set<std::string> seenFn, seenCls, seenVar;
  explicit Visitor(Ctx& c) : C(c) {}

  bool shouldVisitTemplateInstantiations() const { return true; }
  bool shouldVisitImplicitCode() const { return false; }
  bool shouldVisitLambdaBody() const { return true; }

  bool VisitFunctionDecl(FunctionDecl* FD) {
    if (!FD->doesThisDeclarationHaveABody()) return true;
    if (FD->isDependentContext()) return true;
    if (FD->isDefaulted() && !FD->isUserProvided() && !FD->isExplicitlyDefaulted())
      return true;
    const Stmt* Body = FD->getBody();
    if (!Body) return true;
    if (!C.inRoot(FD->getLocation()) && !C.inRoot(Body->getBeginLoc())) return true;
    std::string usr = C.usr(FD);
    if (usr.empty() || !seenFn.insert(usr).second) return true;
    emitFn(FD, Body, usr);
    return true;
  }

  bool VisitLambdaExpr(LambdaExpr* LE) {
    const CXXMethodDecl* Op = LE->getCallOperator();
    if (!Op) return true;
    if (!C.inRoot(LE->getBeginLoc())) return true;
    std::vector<const FunctionDecl*> todo;
    if (FunctionTemplateDecl* FT = LE->getDependentCallOperator()) {
      for (FunctionDecl* S : FT->specializations()) todo.push_back(S);
    } else {
      todo.push_back(Op);
    }
    for (const FunctionDecl* FD : todo) {
      if (!FD->doesThisDeclarationHaveABody() || FD->isDependentContext()) continue;
      std::string usr = C.usr(FD);
      if (usr.empty() || !seenFn.insert(usr).second) continue;
      emitFn(FD, FD->getBody(), usr);
    }
    return true;
  }

  void emitGlobalInit(const VarDecl* VD, const std::string& usr) {
    const Expr* Init = VD->getInit();
    if (!Init) return;
    FnEmitter FE(C, VD);
    JObj f;
    f.str("usr", "init:" + usr);
    f.str("qname", "<init>" + C.qname(VD));
    f.str("name", VD->getNameAsString());
    f.str("file", C.relOf(VD->getLocation()));
    f.num("line", C.lineOf(VD->getLocation()));
    f.num("endline", C.lineOf(Init->getEndLoc()));
    f.str("ret", "void");
    f.str("kind", "globalinit");
    f.raw("params", "[]");
    int body = FE.visit(Init);
    f.num("body", body);
    std::string cfg = FE.emitCFG(Init);
    f.raw("nodes", jarr(FE.nodes));
    f.raw("tries", jarr(FE.tries));
    f.raw("cfg", cfg);
    fns.push_back(f.done());
  }

  void emitFn(const FunctionDecl* FD, const Stmt* Body, const std::string& usr) {
    FnEmitter FE(C, FD);
    JObj f;
    f.str("usr", usr);
    f.str("qname", C.qname(FD));
    f.str("name", FD->getNameAsString());
    // the body's location: for instantiated members getLocation() is the
    // in-class declaration, which may live in another file than the body
    f.str("file", C.relOf(Body->getBeginLoc()).empty() ? C.relOf(FD->getLocation())
                                                       : C.relOf(Body->getBeginLoc()));
    f.num("line", C.relOf(Body->getBeginLoc()).empty() ? C.lineOf(FD->getLocation())
                                                       : C.lineOf(Body->getBeginLoc()));
    f.num("endline", C.lineOf(Body->getEndLoc()));
    f.str("ret", C.tstr(FD->getReturnType()));
    const char* kind = "function";
    if (auto* MD = dyn_cast<CXXMethodDecl>(FD)) {
      kind = isa<CXXConstructorDecl>(MD) ? "ctor"
          : isa<CXXDestructorDecl>(MD)   ? "dtor"
                                         : "method";
      const CXXRecordDecl* RD = MD->getParent();
      f.str("cls", C.qname(RD));
      if (RD->isLambda()) {
        kind = "lambda";
      }
      if (MD->isVirtual()) f.boolean("virtual", true);
      if (MD->isConst()) f.boolean("const", true);
      if (MD->isStatic()) f.boolean("static", true);
      std::vector<std::string> ov;
      for (const CXXMethodDecl* O : MD->overridden_methods()) ov.push_back(C.usr(O));
      if (!ov.empty()) f.strs("overrides", ov);
    }
    f.str("kind", kind);
    // an exception leaving a nothrow function is std::terminate (destructors are nothrow unless declared otherwise)
    if (const auto* FPT = FD->getType()->getAs<FunctionProtoType>()) {
      if (!isUnresolvedExceptionSpec(FPT->getExceptionSpecType()) && FPT->isNothrow()) f.boolean("nothrow", true);
    }
    if (FD->getTemplateInstantiationPattern()) {
      f.boolean("inst", true);
      f.str("pattern", C.usr(FD->getTemplateInstantiationPattern()));
    }
    // enclosing function for lambdas / local classes
    if (const DeclContext* DC = FD->getParent()) {
      const DeclContext* P = DC;
      while (P && !isa<FunctionDecl>(P)) P = P->getParent();
      if (P && P != FD) f.str("parentfn", C.usr(cast<FunctionDecl>(P)));
    }
    std::vector<std::string> params;
    for (const ParmVarDecl* P : FD->parameters()) {
      JObj p;
      p.str("name", P->getNameAsString());
      p.str("decl", FE.declId(P));
      p.str("type", C.tstr(P->getType()));
      std::string w = C.tw(P->getType());
      if (!w.empty()) p.str("tw", w);
      params.push_back(p.done());
    }
    f.raw("params", jarr(params));
    // ctor initialisers are visited through the CFG; make sure their
    // expressions have node ids first
    if (auto* CD = dyn_cast<CXXConstructorDecl>(FD)) {
      std::vector<std::string> inits;
      for (const CXXCtorInitializer* CI : CD->inits()) {
        if (!CI->getInit()) continue;
        int n = FE.visit(CI->getInit());
        JObj i;
        i.str("field", CI->isAnyMemberInitializer() && CI->getAnyMember()
                           ? C.qname(CI->getAnyMember()) : "<base>");
        i.boolean("written", CI->isWritten());
        i.num("n", n);
        inits.push_back(i.done());
      }
      f.raw("inits", jarr(inits));
    }
    int body = FE.visit(Body);
    f.num("body", body);
    std::string cfg = FE.emitCFG(Body);
    f.raw("nodes", jarr(FE.nodes));
    f.raw("tries", jarr(FE.tries));
    f.raw("cfg", cfg);
    fns.push_back(f.done());
  }

  bool VisitCXXRecordDecl(CXXRecordDecl* RD) {
    if (!RD->isThisDeclarationADefinition()) return true;
    if (RD->isDependentContext()) return true;
    if (RD->isLambda()) return true;
    if (!C.inRoot(RD->getLocation())) return true;
    std::string usr = C.usr(RD);
    if (!seenCls.insert(usr).second) return true;
    JObj c;
    c.str("usr", usr);
    c.str("qname", C.qname(RD));
    c.str("file", C.relOf(RD->getLocation()));
    c.num("line", C.lineOf(RD->getLocation()));
    std::vector<std::string> bases;
    for (const CXXBaseSpecifier& B : RD->bases()) {
      if (const CXXRecordDecl* BD = B.getType()->getAsCXXRecordDecl())
        bases.push_back(C.qname(BD));
      else
        bases.push_back(C.tstr(B.getType()));
    }
    c.strs("bases", bases);
    std::vector<std::string> fields;
    for (const Decl* D : RD->decls()) {
      const ValueDecl* VD = nullptr;
      bool isStatic = false;
      if (auto* F = dyn_cast<FieldDecl>(D)) VD = F;
      else if (auto* V = dyn_cast<VarDecl>(D)) { VD = V; isStatic = true; }
      if (!VD) continue;
      JObj f;
      f.str("name", VD->getNameAsString());
      f.str("qname", C.qname(VD));
      f.str("type", C.tstr(VD->getType()));
      std::string w = C.tw(VD->getType());
      if (!w.empty()) f.str("tw", w);
      f.num("line", C.lineOf(VD->getLocation()));
      if (isStatic) f.boolean("static", true);
      if (VD->getType().isConstQualified()) f.boolean("const", true);
      if (auto* F = dyn_cast<FieldDecl>(D))
        if (F->hasInClassInitializer()) f.boolean("hasinit", true);
      fields.push_back(f.done());
    }
    c.raw("fields", jarr(fields));
    std::vector<std::string> methods;
    for (const CXXMethodDecl* M : RD->methods()) {
      if (M->isImplicit()) continue;
      JObj m;
      m.str("usr", C.usr(M));
      m.str("name", M->getNameAsString());
      m.str("qname", C.qname(M));
      if (M->isVirtual()) m.boolean("virtual", true);
      if (M->isPure()) m.boolean("pure", true);
      std::vector<std::string> ov;
      for (const CXXMethodDecl* O : M->overridden_methods()) ov.push_back(C.usr(O));
      if (!ov.empty()) m.strs("overrides", ov);
      methods.push_back(m.done());
    }
    c.raw("methods", jarr(methods));
    classes.push_back(c.done());
    return true;
  }

  bool VisitVarDecl(VarDecl* VD) {
    if (isa<ParmVarDecl>(VD)) return true;
    if (!VD->hasGlobalStorage()) return true;
    if (VD->isStaticDataMember() && !VD->isThisDeclarationADefinition() &&
        !VD->isInline())
      ;  // still record
    if (VD->getDeclContext()->isDependentContext()) return true;
    if (!C.inRoot(VD->getLocation())) return true;
    std::string usr = C.usr(VD);
    if (!seenVar.insert(usr).second) return true;
    JObj v;
    v.str("usr", usr);
    v.str("qname", C.qname(VD));
    v.str("name", VD->getNameAsString());
    v.str("type", C.tstr(VD->getType()));
    v.str("file", C.relOf(VD->getLocation()));
    v.num("line", C.lineOf(VD->getLocation()));
    if (VD->getTLSKind() != VarDecl::TLS_None) v.boolean("tls", true);
    if (VD->getType().isConstQualified() || VD->isConstexpr()) v.boolean("const", true);
    if (VD->isStaticLocal()) {
      v.boolean("static_local", true);
      const DeclContext* P = VD->getDeclContext();
      while (P && !isa<FunctionDecl>(P)) P = P->getParent();
      if (P) v.str("fn", C.usr(cast<FunctionDecl>(P)));
    } else if (VD->hasInit() && VD->isThisDeclarationADefinition() &&
               !VD->getInit()->isValueDependent()) {
      emitGlobalInit(VD, usr);
    }
    globals.push_back(v.done());
    return true;
  }

  bool VisitEnumDecl(EnumDecl* ED) {
    if (!ED->isThisDeclarationADefinition()) return true;
    if (!C.inRoot(ED->getLocation())) return true;
    std::string usr = C.usr(ED);
    if (!seenCls.insert(usr).second) return true;
    JObj e;
    e.str("usr", usr);
    e.str("qname", C.qname(ED));
    e.boolean("enum", true);
    std::vector<std::string> cs;
    for (const EnumConstantDecl* EC : ED->enumerators()) {
      JObj c;
      c.str("name", EC->getNameAsString());
      c.num("val", EC->getInitVal().getExtValue());
      cs.push_back(c.done());
    }
    e.raw("consts", jarr(cs));
    classes.push_back(e.done());
    return true;
  }
};

class Consumer : public ASTConsumer {
 public:
  void HandleTranslationUnit(ASTContext& AC) override {
    if (AC.getDiagnostics().hasErrorOccurred()) {
      llvm::errs() << "oomd_facts: errors in translation unit\n";
    }
    Ctx C(AC, RootDir);
    Visitor V(C);
    V.TraverseDecl(AC.getTranslationUnitDecl());
    std::error_code EC;
    llvm::raw_fd_ostream OS(OutPath, EC);
    if (EC) {
      llvm::errs() << "cannot write " << OutPath << "\n";
      return;
    }
    JObj u;
    u.boolean("errors", AC.getDiagnostics().hasErrorOccurred());
    {
      // every file under the root that this unit read (cache dependencies)
      std::set<std::string> deps;
      SourceManager& SM = AC.getSourceManager();
      for (auto I = SM.fileinfo_begin(); I != SM.fileinfo_end(); ++I) {
        llvm::SmallString<256> p(I->first->getName());
        SM.getFileManager().makeAbsolutePath(p);
        llvm::sys::path::remove_dots(p, true);
        std::string f(p.str());
        if (f.size() > C.root.size() && f.compare(0, C.root.size(), C.root) == 0) {
          size_t i = C.root.size();
          while (i < f.size() && f[i] == '/') i++;
          deps.insert(f.substr(i));
        }
      }
      u.strs("deps", std::vector<std::string>(deps.begin(), deps.end()));
    }
    u.raw("functions", jarr(V.fns));
    u.raw("classes", jarr(V.classes));
    u.raw("globals", jarr(V.globals));
    OS << u.done() << "\n";
  }
};

class Action : public ASTFrontendAction {
 public:
  std::unique_ptr<ASTConsumer> CreateASTConsumer(CompilerInstance&,
                                                 llvm::StringRef) override {
    return std::make_unique<Consumer>();
  }
};

}  // namespace

int main(int argc, const char** argv) {
  auto Exp = CommonOptionsParser::create(argc, argv, Cat);
  if (!Exp) {
    llvm::errs() << llvm::toString(Exp.takeError());
    return 2;
  }
  ClangTool Tool(Exp->getCompilations(), Exp->getSourcePathList());
  return Tool.run(newFrontendActionFactory<Action>().get());
}
