#!/bin/sh
# Builds C19_stats with Stats.cpp and StatsClient.cpp instrumented by AddressSanitizer.
set -e
REPO=${1:-/repo}
OUT=${2:-/tmp/c19r}
FL="-std=c++20 -O1 -g -I$REPO/src -I$REPO/_build -I/usr/include/jsoncpp -DMESON_BUILD -D_FILE_OFFSET_BITS=64 -pthread -fsanitize=address -fno-omit-frame-pointer"
c++ $FL "$(dirname "$0")/C19_stats.cpp" $REPO/src/oomd/Stats.cpp $REPO/src/oomd/StatsClient.cpp -o $OUT $REPO/_build/liboomd.a -ljsoncpp -lsystemd -lstdc++fs
