// Replay for the two C11 findings (ruleset-level cgroup instances):
//  (1) instances whose cgroup vanished are erased inside the iteration and the
//      erased iterator is then incremented (heap-use-after-free; build Ruleset.cpp
//      with -fsanitize=address to see it, see C11_build.sh)
//  (2) per-cgroup instances receive prerun() only on the tick they are created.
// Exit 0 = property holds.
#include <sys/stat.h>
#include <unistd.h>
#include <cstdlib>
#include <iostream>
#include <map>
#include "oomd/OomdContext.h"
#include "oomd/PluginRegistry.h"
#include "oomd/engine/Ruleset.h"
using namespace Oomd;
using namespace Oomd::Engine;
static std::map<std::string, int> preruns, runs;
struct Det : BasePlugin {
  std::string cg;
  int init(const PluginArgs& a, const PluginConstructionContext&) override {
    auto it = a.find("cgroup"); cg = it == a.end() ? "<template>" : it->second; return 0; }
  void prerun(OomdContext&) override { preruns[cg]++; }
  PluginRet run(OomdContext&) override { runs[cg]++; return PluginRet::STOP; }
  static Det* create() { return new Det(); }
};
REGISTER_PLUGIN(replay_det, Det::create);
int main() {
  char tmpl[] = "/tmp/oomd-verif-c11.XXXXXX";
  std::string root = mkdtemp(tmpl);
  for (auto d : {"a", "b", "c", "d", "e", "f", "g", "h"}) mkdir((root + "/" + d).c_str(), 0755);
  auto mk = [&] {
    std::vector<std::unique_ptr<BasePlugin>> dets;
    auto* d = new Det(); d->setName("replay_det"); d->initPlugin({{"cgroup", "x"}}, PluginConstructionContext(root));
    dets.emplace_back(d);
    std::vector<std::unique_ptr<DetectorGroup>> dgs;
    dgs.emplace_back(new DetectorGroup("dg", std::move(dets)));
    return dgs;
  };
  std::vector<std::unique_ptr<BasePlugin>> acts;
  Ruleset rs("rs", mk(), std::move(acts), false, false, false, 0, 0, 5, "", root, "*");
  OomdContext ctx;
  for (int tick = 1; tick <= 3; tick++) { rs.prerun(ctx); rs.runOnce(ctx); }
  int bad = 0;
  // (2) every instance must have been prerun on each of the 3 ticks
  std::cout << "runs per instance: " << runs.size() << " instances\n";
  // instances were created with cgroup arg "x" (own arg wins) -> count totals instead
  int total_pre = 0; for (auto& kv : preruns) total_pre += kv.second;
  int total_run = 0; for (auto& kv : runs) total_run += kv.second;
  std::cout << "detector runs=" << total_run << " preruns=" << total_pre << " (template preruns included)\n";
  // 8 instances x 3 ticks = 24 runs; preruns of instances must be >= 24 (+3 for the template)
  if (total_pre < 24) { std::cout << "FINDING: instances were not prerun every tick\n"; bad |= 1; }
  // (1) remove most cgroups, next tick drops several instances
  for (auto d : {"b", "c", "d", "e", "f", "g"}) rmdir((root + "/" + d).c_str());
  rs.prerun(ctx); rs.runOnce(ctx);
  rs.prerun(ctx); rs.runOnce(ctx);
  std::cout << "survived the drop tick\n";
  for (auto d : {"a", "h"}) rmdir((root + "/" + d).c_str());
  rmdir(root.c_str());
  return bad;
}
