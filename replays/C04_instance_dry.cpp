// Replay: a dry systemd_restart action inside a ruleset with a ruleset-level `cgroup`.
// Ruleset::registerRunnableRulesetForCgroupPath re-initialises every action of the per-cgroup instance with an extra
// "cgroup" argument and ignores init()'s result.  systemd_restart does not declare "cgroup": its argument parser stops
// at the unknown name, the arguments that come later in the (unordered) map are never parsed - `dry`, `service` - and
// the instance restarts for real although the configuration says dry=true.
// Uses the real Ruleset, DetectorGroup, PluginArgParser and the real SystemdRestart<> template over a base class that
// records the D-Bus request instead of sending it.  Exit 0 = no restart request in dry mode.
#include <sys/stat.h>
#include <unistd.h>
#include <fstream>
#include <iostream>
#include "oomd/OomdContext.h"
#include "oomd/PluginRegistry.h"
#include "oomd/engine/Ruleset.h"
#include "oomd/plugins/systemd/SystemdRestart.h"
using namespace Oomd;
static int g_restarts = 0;
static std::string g_last;
struct RecordingSystemd : public BaseSystemdPlugin {
  bool restartService(const std::string& s) override { g_restarts++; g_last = s; return true; }
};
struct RecordingRestart : public SystemdRestart<RecordingSystemd> {
  static RecordingRestart* create() { return new RecordingRestart(); }
};
REGISTER_PLUGIN(recording_systemd_restart, RecordingRestart::create);

int main() {
  char tmpl[] = "/tmp/oomd-c04-XXXXXX";
  std::string root = mkdtemp(tmpl);
  for (auto d : {"/workload.slice", "/workload.slice/a.service"}) {
    mkdir((root + d).c_str(), 0755);
    std::ofstream(root + d + "/cgroup.controllers") << "memory\n";
  }
  auto& reg = getPluginRegistry();
  PluginConstructionContext pcc(root);
  int bad = 0;
  // every subset of the optional arguments, so that the result does not hinge on one hash order
  for (int with_delay = 0; with_delay < 2; with_delay++) {
    g_restarts = 0;
    Engine::PluginArgs args = {{"service", "victim.service"}, {"dry", "true"}};
    if (with_delay) args["post_action_delay"] = "0";
    std::vector<std::unique_ptr<Engine::BasePlugin>> dets;
    { auto d = std::unique_ptr<Engine::BasePlugin>(reg.create("continue")); d->setName("continue"); if (d->initPlugin({}, pcc)) return 3; dets.push_back(std::move(d)); }
    std::vector<std::unique_ptr<Engine::DetectorGroup>> dgs;
    dgs.push_back(std::make_unique<Engine::DetectorGroup>("g", std::move(dets)));
    std::vector<std::unique_ptr<Engine::BasePlugin>> acts;
    { auto a = std::unique_ptr<Engine::BasePlugin>(reg.create("recording_systemd_restart")); a->setName("recording_systemd_restart");
      if (a->initPlugin(args, pcc)) { std::cout << "template init failed\n"; return 3; } acts.push_back(std::move(a)); }
    Engine::Ruleset rs("r", std::move(dgs), std::move(acts), false, false, false, 0, 0, 5, "", root, "workload.slice/*");
    OomdContext ctx;
    rs.prerun(ctx);
    rs.runOnce(ctx);
    std::cout << (g_restarts ? "  FINDING " : "  ok      ") << "dry systemd_restart in a ruleset-cgroup instance (args:" << (with_delay ? " service dry post_action_delay" : " service dry")
              << "): " << g_restarts << " restart request(s) sent" << (g_restarts ? " for service '" + g_last + "'" : "") << std::endl;
    bad += g_restarts ? 1 : 0;
  }
  std::string cmd = "rm -rf " + root; (void)!system(cmd.c_str());
  _exit(bad ? 1 : 0);
}
