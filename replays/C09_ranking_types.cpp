// Replays for the C09 findings (thresholds / ranking keys truncated by their types):
//  (1) kill_by_swap_usage keeps SwapTotal / MemTotal in `int`: with SwapTotal >= 2 GiB a
//      percent threshold and the swap ratio are computed from a truncated value.
//  (2) kill_by_pressure ranks by `int average`: fractional pressures (all < 2 %) truncate to
//      0, so the highest-pressure cgroup is not ranked first.
#include <sys/stat.h>
#include <unistd.h>
#include <fstream>
#include <iostream>
#include "oomd/plugins/KillPressure.h"
#include "oomd/plugins/KillSwapUsage.h"
#include "oomd/util/TestHelper.h"
using namespace Oomd;
static std::string root;
struct Swap : KillSwapUsage<BaseKillPlugin> { int64_t thr() { return threshold_; } float ratio() { return swapRatio_; } };
struct Press : KillPressure<BaseKillPlugin> {
  std::vector<OomdContext::ConstCgroupContextRef> rank(OomdContext& c, const std::vector<OomdContext::ConstCgroupContextRef>& v) { return rankForKilling(c, v); } };
int main() {
  char tmpl[] = "/tmp/oomd-verif-c09.XXXXXX"; root = mkdtemp(tmpl);
  int bad = 0;
  { // (1) SwapTotal = 4 GiB, MemTotal = 16 GiB
    std::ofstream(root + "/meminfo") << "MemTotal:       16777216 kB\nMemFree:         1000000 kB\nSwapTotal:       4194304 kB\nSwapFree:        4194304 kB\n";
    Swap s; s.setName("kill_by_swap_usage");
    int rc = s.initPlugin({{"cgroup", "x"}, {"threshold", "50%"}, {"meminfo_location", root + "/meminfo"}}, PluginConstructionContext(root));
    int64_t want = (4LL << 30) / 2;
    std::cout << "threshold=50% of SwapTotal=4GiB -> " << s.thr() << " (expected " << want << "), swapRatio=" << s.ratio() << " (expected 0.25), init=" << rc << std::endl;
    if (rc != 0 || s.thr() != want || s.ratio() < 0.24f || s.ratio() > 0.26f) { std::cout << "FINDING: SwapTotal/MemTotal truncated to 32 bit" << std::endl; bad++; }
  }
  { // (2) fractional pressures
    for (auto d : {"a", "b", "c"}) mkdir((root + "/" + d).c_str(), 0755);
    OomdContext ctx;
    float p[] = {0.3f, 0.9f, 0.6f};
    const char* names[] = {"a", "b", "c"};
    for (int i = 0; i < 3; i++) {
      TestHelper::CgroupData d; d.mem_pressure = ResourcePressure{p[i], p[i], p[i]}; d.current_usage = 1 << 20;
      TestHelper::setCgroupData(ctx, CgroupPath(root, names[i]), d);
    }
    Press k; k.setName("kill_by_pressure");
    if (k.initPlugin({{"cgroup", "*"}, {"resource", "memory"}}, PluginConstructionContext(root)) != 0) return 2;
    std::vector<OomdContext::ConstCgroupContextRef> v;
    for (auto n : names) v.push_back(*ctx.addToCacheAndGet(CgroupPath(root, n)));
    auto r = k.rank(ctx, v);
    std::cout << "pressure a=0.3 b=0.9 c=0.6 -> first choice " << r.front().get().cgroup().relativePath() << " (expected b)" << std::endl;
    if (r.front().get().cgroup().relativePath() != "b") { std::cout << "FINDING: fractional pressure means truncate to 0 in the ranking key" << std::endl; bad++; }
  }
  std::string cmd = "rm -rf " + root; (void)system(cmd.c_str());
  return bad ? 1 : 0;
}
