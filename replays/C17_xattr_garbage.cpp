// Replay for the C17/C10 finding: a pre-existing non-numeric user.oomd_ooms /
// user.oomd_kill xattr (the user.* namespace is writable by the cgroup's owner)
// makes std::stoi throw out of the kill path; nothing catches it below main().
#include <iostream>
#include <map>
#include "oomd/plugins/BaseKillPlugin.h"
using namespace Oomd;
struct K : BaseKillPlugin {
  std::map<std::string, std::string> x{{"user.oomd_ooms", "not-a-number"}, {"trusted.oomd_ooms", "99999999999999999999"},
                                       {"user.oomd_kill", ""}, {"trusted.oomd_kill", "7"}};
  std::vector<OomdContext::ConstCgroupContextRef> rankForKilling(
      OomdContext&, const std::vector<OomdContext::ConstCgroupContextRef>& c) override { return c; }
  void ologKillTarget(OomdContext&, const CgroupContext&,
                      const std::vector<OomdContext::ConstCgroupContextRef>&) override {}
  std::string getxattr(const std::string&, const std::string& a) override { return x[a]; }
  bool setxattr(const std::string&, const std::string& a, const std::string& v) override { x[a] = v; return true; }
  void go() { reportKillInitiationToXattr("/x"); reportKillCompletionToXattr("/x", 3); }
};
int main() {
  K k;
  try {
    k.go();
  } catch (const std::exception& e) {
    std::cout << "exception escaped the xattr accounting: " << e.what() << std::endl;
    return 1;
  }
  for (auto& kv : k.x) std::cout << kv.first << "=" << kv.second << "\n";
  bool ok = k.x["user.oomd_ooms"] == "1" && k.x["trusted.oomd_ooms"] == "1" && k.x["user.oomd_kill"] == "3" &&
      k.x["trusted.oomd_kill"] == "10";
  std::cout << (ok ? "ok" : "unexpected values") << std::endl;
  return ok ? 0 : 2;
}
