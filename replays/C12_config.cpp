// Replays for the C12 findings.  Each case prints what the real code does.
// Exit 0 = every case is rejected cleanly or honoured exactly.
#include <sys/wait.h>
#include <unistd.h>
#include <functional>
#include <iostream>
#include "oomd/PluginRegistry.h"
#include "oomd/config/ConfigCompiler.h"
#include "oomd/config/JsonConfigParser.h"
#include "oomd/plugins/KillMemoryGrowth.h"
#include "oomd/util/PluginArgParser.h"
#include "oomd/util/Util.h"
using namespace Oomd;
static int bad = 0;
static void check(bool ok, const std::string& what) { std::cout << (ok ? "  ok      " : "  FINDING ") << what << std::endl; if (!ok) bad++; }
static int forked(std::function<int()> f) {
  pid_t c = fork();
  if (c == 0) { int rc = 9; try { rc = f(); } catch (...) { rc = 10; } _exit(rc); }
  int st; waitpid(c, &st, 0); return WIFSIGNALED(st) ? 100 + WTERMSIG(st) : WEXITSTATUS(st);
}
static Config2::IR::Root rootWith(const std::string& pad, const std::string& pht) {
  Config2::IR::Root r; Config2::IR::Ruleset rs; rs.name = "r"; rs.post_action_delay = pad; rs.prekill_hook_timeout = pht;
  Config2::IR::DetectorGroup dg; dg.name = "g"; Config2::IR::Detector d; d.name = "continue"; dg.detectors.push_back(d);
  rs.dgs.push_back(dg); Config2::IR::Action a; a.name = "continue"; rs.acts.push_back(a); r.rulesets.push_back(rs); return r;
}
int main() {
  PluginConstructionContext cc("/sys/fs/cgroup");
  // 1. numeric ruleset fields
  int rc = forked([&] { auto e = Config2::compile(rootWith("abc", ""), cc); return e ? 1 : 0; });
  check(rc == 0, "post_action_delay=\"abc\" is rejected with nullptr (rc=" + std::to_string(rc) + ", 10 = exception escaped compile)");
  rc = forked([&] { auto e = Config2::compile(rootWith("", "99999999999"), cc); return e ? 1 : 0; });
  check(rc == 0, "prekill_hook_timeout=\"99999999999\" is rejected with nullptr (rc=" + std::to_string(rc) + ")");
  rc = forked([&] { auto e = Config2::compile(rootWith("5s", ""), cc); return e ? 1 : 0; });
  check(rc == 0, "post_action_delay=\"5s\" (trailing garbage) is rejected (rc=" + std::to_string(rc) + ")");
  // 2. sizes
  for (auto s : {"1e30", "nan", "inf", "99999999999T", "9223372036854775807G", "8388608T", "4194304T 4194304T", "9223372036854775808"}) {
    int64_t v = 0; int r = Util::parseSize(s, &v);
    check(r != 0, std::string("parseSize(\"") + s + "\") is rejected (returned " + std::to_string(r) + ", value " + std::to_string(v) + ")");
  }
  { int64_t v = 0; int r = Util::parseSizeOrPercent("99999999999999999", &v, 100); check(r != 0, "parseSizeOrPercent(\"99999999999999999\") [bare MB] is rejected (value " + std::to_string(v) + ")"); }
  { int64_t v = 0; int r = Util::parseSizeOrPercent("5x%", &v, 1000); check(r != 0, "parseSizeOrPercent(\"5x%\") is rejected (value " + std::to_string(v) + ")"); }
  { int64_t v = 0; int r = Util::parseSizeOrPercent("1.5G 32K", &v, 0); check(r == 0 && v == 1610612736LL + 32768, "parseSizeOrPercent(\"1.5G 32K\") == 1610645504 (got " + std::to_string(v) + ")"); }
  // 3. plugin argument conversions
  auto rejects = [](std::function<void()> f) { try { f(); } catch (const std::exception&) { return true; } return false; };
  check(rejects([] { PluginArgParser::parseUnsignedInt("12abc"); }), "parseUnsignedInt(\"12abc\") is rejected");
  check(rejects([] { PluginArgParser::parseValue<int>("7.9"); }), "parseValue<int>(\"7.9\") is rejected");
  check(rejects([] { PluginArgParser::parseValue<int64_t>("9223372036854775808"); }), "parseValue<int64_t>(\"9223372036854775808\") is rejected (wraps otherwise)");
  check(rejects([] { PluginArgParser::parseValue<double>("1.5x"); }), "parseValue<double>(\"1.5x\") is rejected");
  // 4. fractional argument parsed by an integer parser
  {
    struct K : KillMemoryGrowth<BaseKillPlugin> { float ratio() { return min_growth_ratio_; } } k;
    k.setName("kill_by_memory_size_or_growth");
    int r = k.initPlugin({{"cgroup", "x"}, {"min_growth_ratio", "1.5"}}, cc);
    check(r == 0 && k.ratio() == 1.5f, "min_growth_ratio=\"1.5\" is honoured exactly (init=" + std::to_string(r) + ", value=" + std::to_string(k.ratio()) + ")");
  }
  // 5. JSON: non-scalar argument value
  {
    Config2::JsonConfigParser p;
    auto ir = p.parse(R"({"rulesets":[{"name":"r","detectors":[["g",{"name":"continue","args":{"a":[1,2],"b":"x"}}]],"actions":[{"name":"continue"}]}]})");
    auto& det = ir->rulesets.at(0).dgs.at(0).detectors.at(0);
    check(det.name.empty() || det.args.size() == 2, "plugin with a non-scalar argument is invalid (name=\"" + det.name + "\", " + std::to_string(det.args.size()) + " of 2 args kept)");
  }
  // 6. undeclared argument
  {
    Config2::IR::Root r = rootWith("", ""); r.rulesets[0].acts[0].args["no_such_arg"] = "1";
    auto e = Config2::compile(r, cc);
    check(!e, "an argument the plugin does not declare (continue: no_such_arg) is rejected");
  }
  std::cout << (bad ? "FINDINGS: " : "all ok: ") << bad << std::endl;
  return bad ? 1 : 0;
}
