// Replay for C19: "Every client connection - whatever bytes it sends, or if it stalls or disconnects - ... is then closed
// without crashing ... the server".  A client sends "g\n" and closes without reading the reply; the handler thread then
// write(2)s the reply to a socket whose peer is gone -> SIGPIPE, whose default action terminates the daemon (oomd installs
// no SIGPIPE disposition).  The server runs in a child so that the parent can observe how it ended.
// exit 0 = the server survived 20 such clients and still answers; 1 = it was killed.
#include <sys/socket.h>
#include <sys/un.h>
#include <sys/wait.h>
#include <unistd.h>
#include <csignal>
#include <cstdio>
#include <cstring>
#include <string>
#include <thread>
#include "oomd/Stats.h"
#include "oomd/StatsClient.h"

static int connectTo(const std::string& path) {
  int fd = ::socket(AF_UNIX, SOCK_STREAM, 0);
  sockaddr_un a{};
  a.sun_family = AF_UNIX;
  std::strncpy(a.sun_path, path.c_str(), sizeof(a.sun_path) - 1);
  if (::connect(fd, (sockaddr*)&a, sizeof a) < 0) {
    ::close(fd);
    return -1;
  }
  return fd;
}

int main() {
  std::string path = "/tmp/oomd-c19-sigpipe-" + std::to_string(::getpid()) + ".socket";
  pid_t child = ::fork();
  if (child == 0) {
    ::signal(SIGPIPE, SIG_DFL); // what the daemon runs with
    if (!Oomd::Stats::init(path)) {
      _exit(3);
    }
    Oomd::setStat("a", 1);
    for (int i = 0; i < 20; i++) {
      int fd = connectTo(path);
      if (fd < 0) {
        _exit(4);
      }
      (void)!::write(fd, "g\n", 2);
      ::close(fd); // gone before the reply is written
      std::this_thread::sleep_for(std::chrono::milliseconds(50));
    }
    // still serving?
    Oomd::StatsClient c(path);
    auto r = c.getStats();
    _exit(r ? 0 : 5);
  }
  int st = 0;
  ::waitpid(child, &st, 0);
  ::unlink(path.c_str());
  if (WIFSIGNALED(st)) {
    std::printf("server process killed by signal %d (%s)\n", WTERMSIG(st), strsignal(WTERMSIG(st)));
    return 1;
  }
  std::printf("server process exited with %d\n", WEXITSTATUS(st));
  return WEXITSTATUS(st) == 0 ? 0 : 1;
}
