// Replays for the C10 findings: each case runs the real code on a hand-made
// cgroup directory in a forked child and reports how the child ended.
// Exit 0 = every case survives with an error/unavailable result.
#include <dirent.h>
#include <dlfcn.h>
#include <sys/stat.h>
#include <sys/wait.h>
#include <unistd.h>
#include <fstream>
#include <functional>
#include <iostream>
#include "oomd/CgroupContext.h"
#include "oomd/OomdContext.h"
#include "oomd/plugins/KillSwapUsage.h"
#include "oomd/util/Fs.h"
using namespace Oomd;

// d_type-less filesystem: every entry reports DT_UNKNOWN (forces the fstatat fallback)
static bool g_hide_dtype = false;
extern "C" struct dirent* readdir(DIR* d) {
  using fn = struct dirent* (*)(DIR*);
  static fn real = (fn)dlsym(RTLD_NEXT, "readdir");
  struct dirent* e = real(d);
  if (e && g_hide_dtype) e->d_type = DT_UNKNOWN;
  return e;
}

static std::string root;
static void put(const std::string& rel, const std::string& content) {
  std::ofstream(root + "/" + rel) << content;
}
static int run_case(const char* name, std::function<int()> f) {
  pid_t c = fork();
  if (c == 0) {
    int rc = 3;
    try { rc = f(); } catch (const std::exception& e) {
      std::cout << "  [" << name << "] exception escaped: " << e.what() << std::endl; _exit(10);
    }
    _exit(rc);
  }
  int st = 0; waitpid(c, &st, 0);
  if (WIFSIGNALED(st)) { std::cout << "  [" << name << "] killed by signal " << WTERMSIG(st) << std::endl; return 1; }
  if (WEXITSTATUS(st) != 0) { std::cout << "  [" << name << "] FAILED rc=" << WEXITSTATUS(st) << std::endl; return 1; }
  std::cout << "  [" << name << "] ok" << std::endl; return 0;
}
struct SwapK : KillSwapUsage<BaseKillPlugin> { int64_t excess(const CgroupContext& c) { return getSwapExcess(c); } };

int main() {
  char tmpl[] = "/tmp/oomd-verif-c10.XXXXXX"; root = mkdtemp(tmpl);
  mkdir((root + "/cg").c_str(), 0755); mkdir((root + "/cg/child").c_str(), 0755);
  for (auto f : {"cg/cgroup.controllers", "cg/memory.current", "cg/memory.swap.current", "cg/pids.current"}) put(f, "");
  put("cg/memory.stat", "anon 1\nfile 2\n");            // no pgscan, no active_file
  put("cg/memory.min", "4096\n"); put("cg/memory.low", "4096\n"); put("cg/afile", "x");
  int bad = 0;
  auto dir = [&] { return Fs::DirFd::open(root + "/cg"); };
  bad += run_case("empty cgroup.controllers", [&] { auto d = dir(); auto r = Fs::readControllersAt(*d); return 0; });
  bad += run_case("empty memory.current", [&] { auto d = dir(); auto r = Fs::readMemcurrentAt(*d); return r ? 1 : 0; });
  bad += run_case("empty memory.swap.current", [&] { auto d = dir(); auto r = Fs::readSwapCurrentAt(*d); return r ? 1 : 0; });
  bad += run_case("empty pids.current", [&] { auto d = dir(); auto r = Fs::readPidsCurrentAt(*d); return r ? 1 : 0; });
  bad += run_case("readdir without d_type", [&] {
    g_hide_dtype = true;
    auto d = dir(); auto de = Fs::readDirAt(*d, Fs::DE_DIR | Fs::DE_FILE);
    if (!de) return 2;
    bool dir_ok = de->dirs.size() == 1 && de->dirs[0] == "child";
    bool no_dir_in_files = true; for (auto& f : de->files) if (f == "child") no_dir_in_files = false;
    std::cout << "    dirs=" << de->dirs.size() << " files=" << de->files.size() << std::endl;
    return dir_ok && no_dir_in_files ? 0 : 1; });
  bad += run_case("memory.stat without pgscan", [&] {
    OomdContext ctx; auto c = ctx.addToCacheAndGet(CgroupPath(root, "cg")); if (!c) return 2;
    auto v = c->get().pg_scan_cumulative(); return v ? 1 : 0; });
  bad += run_case("protection present, swap usage unavailable", [&] {
    ::unlink((root + "/cg/memory.swap.current").c_str());
    OomdContext ctx; auto c = ctx.addToCacheAndGet(CgroupPath(root, "cg")); if (!c) return 2;
    SwapK k; k.excess(c->get()); return 0; });
  std::string cmd = "rm -rf " + root; (void)system(cmd.c_str());
  std::cout << (bad ? "FINDINGS: " : "all cases ok: ") << bad << std::endl;
  return bad ? 1 : 0;
}
