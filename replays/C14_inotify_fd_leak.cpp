// Replay for the C14 finding "prepDropInWatcherEventLoop leaks the inotify descriptor on its failure returns".
//
// History: the drop-in directory is deleted (the watcher notices, the main loop starts retrying prepDropInWatcher on every tick), then
// re-created in a state in which inotify_add_watch() fails although the path IS a directory - here: not readable by the uid oomd runs
// as (EACCES); the user's inotify watch limit (ENOSPC) or the directory vanishing again between the isDir() test and the watch have the
// same effect.  Every such tick must leave the number of open descriptors unchanged.
//
// build (against the library built from the tree under test):
//   c++ -std=c++20 -O1 -I$OOMD/src -I$OOMD/_build -I/usr/include/jsoncpp -DMESON_BUILD -D_FILE_OFFSET_BITS=64 -pthread \
//     C14_inotify_fd_leak.cpp -o replay -Wl,--whole-archive $OOMD/_build/liboomd.a -Wl,--no-whole-archive -ljsoncpp -lsystemd -lstdc++fs
// exit 0 = no descriptor leaked, 1 = leak (the defect), 2 = set-up problem.  Needs to start as root (it drops to uid 65534).
#include <fcntl.h>
#include <sys/stat.h>
#include <unistd.h>

#include <chrono>
#include <cstdio>
#include <cstdlib>
#include <string>
#include <thread>

#include "oomd/OomdContext.h"
#include "oomd/PluginConstructionContext.h"
#include "oomd/config/ConfigCompiler.h"
#include "oomd/config/ConfigTypes.h"
#include "oomd/dropin/FsDropInService.h"
#include "oomd/engine/Engine.h"
#include "oomd/util/TestHelper.h"

namespace Oomd {
DEFINE_MOCK_PLUGIN(C14Replay);
}
using namespace Oomd;

static int openFds() {
  int n = 0;
  for (int fd = 0; fd < 1024; ++fd) {
    if (::fcntl(fd, F_GETFD) != -1) {
      ++n;
    }
  }
  return n;
}

static void nap(int ms = 80) {
  std::this_thread::sleep_for(std::chrono::milliseconds(ms));
}

int main() {
  using namespace Config2::IR;
  const Root root{.rulesets = {Ruleset{
                      .name = "r",
                      .dgs = {DetectorGroup{.name = "dg", .detectors = {{MockPlugin::createIR("D")}}}},
                      .acts = {{MockPlugin::createIR("A")}},
                      .dropin = DropIn{.disable_on_drop_in = true, .detectorgroups_enabled = true, .actiongroup_enabled = true}}}};
  char tmpl[] = "/tmp/c14replay.XXXXXX";
  if (!::mkdtemp(tmpl)) {
    return 2;
  }
  const std::string base = tmpl;
  const std::string dir = base + "/dropins";
  ::chmod(base.c_str(), 0755);
  if (::mkdir(dir.c_str(), 0755)) {
    return 2;
  }
  PluginConstructionContext pctx("/sys/fs/cgroup");
  auto engine = Config2::compile(root, pctx);
  auto service = engine ? FsDropInService::create("/sys/fs/cgroup", root, *engine, dir) : nullptr;
  if (!service) {
    std::fprintf(stderr, "REPLAY: set-up failed\n");
    return 2;
  }
  // the directory goes away; the watcher thread sees IN_DELETE_SELF and the main loop starts retrying
  ::rmdir(dir.c_str());
  nap();
  service->updateDropIns();
  nap();
  service->updateDropIns();
  // ... and comes back unreadable for the uid oomd runs as
  if (::mkdir(dir.c_str(), 0000)) {
    return 2;
  }
  if (::geteuid() == 0 && ::seteuid(65534) != 0) {
    std::fprintf(stderr, "REPLAY: cannot drop privileges\n");
    return 2;
  }
  const int before = openFds();
  const int kTicks = 20;
  for (int i = 0; i < kTicks; ++i) {
    service->updateDropIns();
  }
  const int after = openFds();
  if (::geteuid() != 0) {
    (void)::seteuid(0);
  }
  ::rmdir(dir.c_str());
  ::rmdir(base.c_str());
  std::fprintf(stderr, "REPLAY: open descriptors before %d, after %d ticks with a failing watch set-up: %d\n", before, kTicks, after);
  if (after != before) {
    std::fprintf(stderr, "REPLAY: FAIL - %d descriptors leaked (one inotify instance per tick)\n", after - before);
    return 1;
  }
  std::fprintf(stderr, "REPLAY: ok\n");
  return 0;
}
