// Replay for the C04 finding: systemd_restart with dry=true must not increase the
// restart counter.
#include <iostream>
#include <unistd.h>
#include "oomd/Stats.h"
#include "oomd/plugins/systemd/SystemdRestart.h"
using namespace Oomd;
struct MockBase : BaseSystemdPlugin {
  bool restartService(const std::string&) override { return true; }
  bool stopService(const std::string&) override { return true; }
};
int main() {
  std::string sock = "/tmp/oomd-verif-replay-" + std::to_string(getpid()) + ".sock";
  Stats::init(sock);
  SystemdRestart<MockBase> p;
  Engine::PluginArgs args{{"service", "x.service"}, {"post_action_delay", "0"}, {"dry", "true"}};
  if (p.init(args, PluginConstructionContext("/sys/fs/cgroup")) != 0) return 2;
  OomdContext ctx;
  auto before = Oomd::getStats();
  p.run(ctx);
  auto after = Oomd::getStats();
  int d = after["oomd.restarts"] - before["oomd.restarts"];
  for (auto& kv : after) std::cout << kv.first << "=" << kv.second << "\n";
  std::cout << "restart counter delta in dry mode: " << d << " (expected 0)" << std::endl;
  ::unlink(sock.c_str());
  _exit(d == 0 ? 0 : 1);   // skip static destructors (stats thread)
}
