#!/bin/sh
# usage: replays/build.sh <driver.cpp> <out> [repo]   -- links against the repo's built liboomd.a
set -e
REPO=${3:-/repo}
c++ -std=c++20 -O1 -g -I$REPO/src -I$REPO/_build -I/usr/include/jsoncpp -DMESON_BUILD -D_FILE_OFFSET_BITS=64 -pthread \
  "$1" -o "$2" -ldl -Wl,--whole-archive $REPO/_build/liboomd.a -Wl,--no-whole-archive -ljsoncpp -lsystemd -lstdc++fs
