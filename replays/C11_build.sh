#!/bin/sh
# Builds C11_instances with Ruleset.cpp instrumented by AddressSanitizer (the rest from liboomd.a).
set -e
REPO=${1:-/repo}
OUT=${2:-/tmp/c11r}
FL="-std=c++20 -O1 -g -I$REPO/src -I$REPO/_build -I/usr/include/jsoncpp -DMESON_BUILD -D_FILE_OFFSET_BITS=64 -pthread -fsanitize=address -fno-omit-frame-pointer"
c++ $FL "$(dirname "$0")/C11_instances.cpp" $REPO/src/oomd/engine/Ruleset.cpp -o $OUT $REPO/_build/liboomd.a -ljsoncpp -lsystemd -lstdc++fs
