// Replay for the C01 finding: a "0" line in cgroup.procs (a process that lives in
// a pid namespace oomd cannot see) reaches kill(0, SIGKILL), which signals oomd's
// own process group.  The child puts itself in a fresh process group, asks the
// real BaseKillPlugin::tryToKillPids to kill {0}, and must survive.
#include <sys/wait.h>
#include <unistd.h>
#include <iostream>
#include "oomd/plugins/BaseKillPlugin.h"
using namespace Oomd;
struct K : BaseKillPlugin {
  std::vector<OomdContext::ConstCgroupContextRef> rankForKilling(
      OomdContext&, const std::vector<OomdContext::ConstCgroupContextRef>& c) override { return c; }
  void ologKillTarget(OomdContext&, const CgroupContext&,
                      const std::vector<OomdContext::ConstCgroupContextRef>&) override {}
  int go(const std::vector<int>& p) { return tryToKillPids(p); }
};
int main() {
  pid_t c = fork();
  if (c == 0) {
    setpgid(0, 0);
    K k;
    int n = k.go({0, -1 * getpid()});   // pid 0 and a negative pid (= our own group)
    _exit(n == 0 ? 0 : 3);
  }
  int st = 0;
  waitpid(c, &st, 0);
  if (WIFSIGNALED(st)) {
    std::cout << "child killed by signal " << WTERMSIG(st) << ": oomd signalled its own process group\n";
    return 1;
  }
  std::cout << "child survived, exit=" << WEXITSTATUS(st) << " (0 = nothing signalled)\n";
  return WEXITSTATUS(st);
}
