// Replay for the C05 finding: a kill-like action that finishes after an async
// pause on a tick where no detector fires cannot reach its ruleset, so its own
// post_action_delay is silently replaced by the ruleset's.
// Expected (property): action runs at ticks 1,2 only.  Defect: runs at tick 3 too.
#include <iostream>
#include "oomd/OomdContext.h"
#include "oomd/engine/Ruleset.h"
using namespace Oomd;
using namespace Oomd::Engine;
static int tick = 0, actionRuns = 0;
struct Det : BasePlugin {
  int init(const PluginArgs&, const PluginConstructionContext&) override { return 0; }
  PluginRet run(OomdContext&) override { return (tick == 1 || tick == 3) ? PluginRet::CONTINUE : PluginRet::STOP; }
};
struct Act : BasePlugin {
  int n = 0;
  int init(const PluginArgs&, const PluginConstructionContext&) override { return 0; }
  PluginRet run(OomdContext& ctx) override {
    actionRuns++;
    if (n++ == 0) return PluginRet::ASYNC_PAUSED;
    auto rs = ctx.getInvokingRuleset();
    if (rs) (*rs)->pause_actions(std::chrono::seconds(100));  // plugin-level post_action_delay
    return PluginRet::STOP;
  }
};
int main() {
  std::vector<std::unique_ptr<BasePlugin>> dets; dets.emplace_back(new Det());
  std::vector<std::unique_ptr<DetectorGroup>> dgs;
  dgs.emplace_back(new DetectorGroup("dg", std::move(dets)));
  std::vector<std::unique_ptr<BasePlugin>> acts; acts.emplace_back(new Act());
  Ruleset rs("rs", std::move(dgs), std::move(acts), false, false, false, 0, /*post_action_delay*/0, 5);
  OomdContext ctx;
  for (tick = 1; tick <= 3; tick++) rs.runOnce(ctx);
  std::cout << "action runs: " << actionRuns << " (expected 2)\n";
  return actionRuns == 2 ? 0 : 1;
}
