// Replay for the C20 finding: with a blocked sink the asynchronous logger must not
// queue more than 1 MiB; further lines are dropped and the drop count reported.
// debugLog() adds buf.size() to the backlog AFTER moving buf away, i.e. adds 0.
#include <atomic>
#include <chrono>
#include <condition_variable>
#include <iostream>
#include <mutex>
#include <thread>
#include "oomd/Log.h"
using namespace Oomd;
struct GateBuf : std::streambuf {
  std::mutex m; std::condition_variable cv; bool open = false; size_t bytes = 0; std::string tail;
  std::streamsize xsputn(const char* s, std::streamsize n) override {
    std::unique_lock<std::mutex> l(m); cv.wait(l, [&] { return open; });
    bytes += n; tail.append(s, n); if (tail.size() > 4096) tail.erase(0, tail.size() - 4096); return n; }
  int overflow(int c) override { char ch = c; xsputn(&ch, 1); return c; }
  void release() { { std::lock_guard<std::mutex> l(m); open = true; } cv.notify_all(); }
};
int main() {
  GateBuf gb; std::ostream sink(&gb);
  size_t produced = 0;
  {
    auto log = Log::get_for_unittest(-1, sink, /*inline*/ false);
    std::string line(1023, 'x'); line += "\n";
    // first line lets the flusher take one queue and block in the sink
    log->debugLog(std::string(line)); produced += line.size();
    std::this_thread::sleep_for(std::chrono::milliseconds(200));
    for (int i = 0; i < 5 * 1024; i++) { log->debugLog(std::string(line)); produced += line.size(); }   // 5 MiB
    gb.release();
  }   // ~Log flushes
  bool reported = gb.tail.find("messages dropped") != std::string::npos || gb.bytes < produced;
  std::cout << "produced " << produced << " bytes, sink received " << gb.bytes << " bytes; cap is 1 MiB per queue" << std::endl;
  bool ok = gb.bytes <= 2 * 1024 * 1024 + 4096 && reported;
  std::cout << (ok ? "backlog was bounded and drops were reported" : "FINDING: backlog cap not enforced (nothing dropped)") << std::endl;
  return ok ? 0 : 1;
}
