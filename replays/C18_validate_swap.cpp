// Replay for the C18 finding: Senpai::validateSwap must allow reclaim only while the
// effective swap utilisation is BELOW swap_threshold (0.8 by default); it returns
// util >= threshold instead, i.e. it blocks reclaim while swap is nearly empty and
// allows it when swap is nearly exhausted.
#include <sys/stat.h>
#include <unistd.h>
#include <fstream>
#include <iostream>
#include <map>
#include <sstream>
#include <unordered_set>
#include "oomd/OomdContext.h"
#include "oomd/engine/BasePlugin.h"
#define private public
#include "oomd/plugins/Senpai.h"
#undef private
#include "oomd/OomdContext.h"
using namespace Oomd;
static std::string root;
static void put(const std::string& rel, const std::string& c) { std::ofstream(root + "/" + rel) << c; }
int main() {
  char tmpl[] = "/tmp/oomd-verif-c18.XXXXXX"; root = mkdtemp(tmpl);
  mkdir((root + "/cg").c_str(), 0755);
  put("cg/memory.swap.max", "1000\n");
  int bad = 0;
  for (auto [usage, expect_ok] : {std::pair<int, bool>{100, true}, {950, false}}) {   // 10 % and 95 % utilisation
    put("cg/memory.swap.current", std::to_string(usage) + "\n");
    OomdContext ctx;
    SystemContext sc; sc.swaptotal = 1 << 30; sc.swapused = 0; sc.swappiness = 60; ctx.setSystemContext(sc);
    auto c = ctx.addToCacheAndGet(CgroupPath(root, "cg"));
    if (!c) return 2;
    Senpai s;
    auto r = s.validateSwap(c->get());
    if (!r) { std::cout << "validateSwap error" << std::endl; return 2; }
    std::cout << "swap utilisation " << usage / 10 << "%  threshold 80%  validateSwap=" << (*r ? "reclaim allowed" : "reclaim blocked")
              << "  expected " << (expect_ok ? "allowed" : "blocked") << std::endl;
    if (*r != expect_ok) bad++;
  }
  std::string cmd = "rm -rf " + root; (void)system(cmd.c_str());
  std::cout << (bad ? "FINDING: swap validation is inverted" : "ok") << std::endl;
  return bad ? 1 : 0;
}
