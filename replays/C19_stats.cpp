// Replays for the C19 findings.
//  (1) a client that connects and then stalls past the 2 s receive timeout makes the
//      handler return early without giving back its slot; the destructor then waits
//      5 s and aborts (OCHECK(false)).
//  (2) a socket path longer than sizeof(sun_path) is strcpy'd into the address
//      (build with C19_build.sh: Stats.cpp/StatsClient.cpp under ASan).
// Exit 0 = property holds.
#include <sys/socket.h>
#include <sys/un.h>
#include <sys/wait.h>
#include <unistd.h>
#include <chrono>
#include <iostream>
#include <thread>
#include "oomd/Stats.h"
#include "oomd/StatsClient.h"
using namespace Oomd;
static int forked(const char* name, int (*f)()) {
  pid_t c = fork();
  if (c == 0) { _exit(f()); }
  int st; waitpid(c, &st, 0);
  if (WIFSIGNALED(st)) { std::cout << "  [" << name << "] killed by signal " << WTERMSIG(st) << std::endl; return 1; }
  std::cout << "  [" << name << "] exit " << WEXITSTATUS(st) << std::endl; return WEXITSTATUS(st) ? 1 : 0;
}
static int stalled_client() {
  std::string path = "/tmp/oomd-verif-c19-" + std::to_string(getpid()) + ".sock";
  {
    auto stats = Stats::get_for_unittest(path);
    int s = ::socket(AF_UNIX, SOCK_STREAM, 0);
    sockaddr_un a{}; a.sun_family = AF_UNIX; strcpy(a.sun_path, path.c_str());
    if (::connect(s, (sockaddr*)&a, sizeof(a)) < 0) return 3;
    std::this_thread::sleep_for(std::chrono::milliseconds(2600));   // say nothing: server read times out
    ::close(s);
    auto t0 = std::chrono::steady_clock::now();
    stats.reset();                                                   // destructor
    auto ms = std::chrono::duration_cast<std::chrono::milliseconds>(std::chrono::steady_clock::now() - t0).count();
    std::cout << "    shutdown took " << ms << " ms" << std::endl;
    if (ms > 4000) return 2;
  }
  return 0;
}
static int long_path() {
  std::string path = "/tmp/oomd-verif-c19-" + std::string(300, 'x') + ".sock";
  try {
    auto stats = Stats::get_for_unittest(path);
    std::cout << "    service started on an over-long path?!" << std::endl;
    return 1;
  } catch (const std::exception& e) {
    std::cout << "    initialisation failure reported: " << e.what() << std::endl;
  }
  StatsClient c(path);            // must not corrupt memory either
  auto r = c.getStats();
  return r ? 1 : 0;
}
int main() {
  int bad = 0;
  bad += forked("over-long socket path", long_path);
  bad += forked("client stalls past the receive timeout", stalled_client);
  std::cout << (bad ? "FINDINGS: " : "all ok: ") << bad << std::endl;
  return bad ? 1 : 0;
}
