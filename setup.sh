#!/bin/sh
# Builds the libTooling fact extractor (offline; clang 14 / llvm-14 from the image).
set -e
cd "$(dirname "$0")"
mkdir -p build
if [ ! -x build/oomd_facts ] || [ extractor/oomd_facts.cc -nt build/oomd_facts ]; then
  clang++ $(llvm-config-14 --cxxflags) -fno-rtti -O1 extractor/oomd_facts.cc -o build/oomd_facts.tmp \
    /usr/lib/llvm-14/lib/libclang-cpp.so.14 /usr/lib/llvm-14/lib/libLLVM-14.so
  mv build/oomd_facts.tmp build/oomd_facts
fi
echo "setup ok"
